"""C11 spec."""

from vlib.e1 import Job

M = "harness.c11"


def jobs(tier):
  q = tier == "quick"
  t = 900 if q else 3600
  if q:
    return [
        Job("const", M, "h_const", dict(C11_DEPTH=2, C11_NOPT=3), shards=61, timeout=t),
        Job("const-union-of-containers", M, "h_const",
            dict(C11_DEPTH=3, C11_NLEAVES=2, C11_COMP=3, C11_ROOT_UNION=2, C11_NOPT=3), shards=31, timeout=t,
            note="Union of two of {int, bool, list[.], tuple of arity 0-2} (mixed-arity tuples, container merging)"),
        Job("func", M, "h_func", dict(C11_NSIG=2, C11_NPTYPES=3, C11_NRTYPES=5, C11_NMUT=2, C11_NEXC=2, C11_NOPT=3), shards=127, timeout=t),
        Job("const-user-generics", M, "h_const", dict(C11_GENERIC=1, C11_DEPTH=2, C11_COMP=1, C11_NOPT=3), shards=31, timeout=t,
            note="unions of Base[int], Base[str], Sub[str], Fixed[str] (Fixed(Base[int])), Sub[int], int, Base"),
        Job("func-3sig", M, "h_func", dict(C11_NSIG=3, C11_NPTYPES=2, C11_NRTYPES=3, C11_NMUT=1, C11_NEXC=2, C11_NOPT=2), shards=31, timeout=t,
            note="three overloads (non-adjacent signatures with equal parameters)"),
    ]
  return [
      Job("const", M, "h_const", dict(C11_DEPTH=2, C11_NOPT=6), shards=127, timeout=t),
      Job("const-union2-of-containers", M, "h_const",
          dict(C11_DEPTH=3, C11_NLEAVES=3, C11_COMP=5, C11_ROOT_UNION=2, C11_NOPT=6), shards=251, timeout=t),
      Job("const-union3-of-containers", M, "h_const",
          dict(C11_DEPTH=3, C11_NLEAVES=2, C11_COMP=3, C11_ROOT_UNION=3, C11_NOPT=3), shards=251, timeout=t),
      Job("const-user-generics", M, "h_const", dict(C11_GENERIC=1, C11_DEPTH=2, C11_COMP=5, C11_NOPT=6), shards=127, timeout=t),
      Job("func-2sig", M, "h_func", dict(C11_NSIG=2, C11_NPTYPES=4, C11_NRTYPES=8, C11_NMUT=2, C11_NEXC=2, C11_NOPT=6), shards=509, timeout=t),
      Job("func-3sig", M, "h_func", dict(C11_NSIG=3, C11_NPTYPES=2, C11_NRTYPES=5, C11_NMUT=2, C11_NEXC=1, C11_NOPT=3), shards=251, timeout=t),
  ]


KNOWN = {}


def meta(tier):
  return {
      "explanation": (
          "The real optimize.Optimize (all passes) runs traced on a unit decoded from selectors, under each option set "
          "(lossless with/without deps, max_union 2 / 0, lossy, remove_mutable). const: the same depth-2 type tree "
          "(leaves int, bool, str, NoneType, object, Any, nothing over bool <: int <: object; list[.], tuple[., ...], "
          "tuple[...] of arity 0-2, Callable of arity 0-2, unions of 2-3) as constant, parameter and return type; "
          "admitted value sets over a 68-value universe must only grow, must be EQUAL for unions of plain classes under "
          "the lossless settings, and Optimize(Optimize(x)) is ASTeq to Optimize(x). func: a function of up to NSIG "
          "signatures (parameter/return types from a fixed list, optional mutated type and exception): the relation "
          "{(argument values, returned value)} admitted by some signature must only grow, exceptions are kept, the number "
          "of signatures does not grow, idempotence. The oracle (admits) is written independently of optimize.py; inputs "
          "are structural, so the solver's role is the certified exhaustive walk."),
      "functions_encoded": [
          "pytype/pytd/optimize.py: Optimize, NormalizeGenericSelfTypes, RemoveDuplicates, SimplifyUnions, CombineReturnsAndExceptions, "
          "CombineContainers, SimplifyContainers, SuperClassHierarchy, SimplifyUnionsWithSuperclasses, FindCommonSuperClasses, CollapseLongUnions, "
          "AdjustReturnAndConstantGenericType, AbsorbMutableParameters, MergeTypeParameters",
          "pytype/pytd/pytd_utils.py: JoinTypes, ASTeq; pytype/pytd/visitors.py: ExtractSuperClassesByName, AdjustSelf"],
      "bounds": {j.name: j.params for j in jobs(tier)},
      "outside": ["use_abcs=True (abstract base classes outside the value universe)", "type parameters / MergeTypeParameters beyond none",
                  "PullInMethodClasses, AddInheritedMethods", "stubs emitted for programs and the bundled stubs", "types nested deeper than one level"],
      "rule": "one record per completed path keyed by (options, decoded type / signatures); non-trivial: const = composite type, func = more than one signature",
      "assumptions": [
          "value universe: an instance of each class, lists/tuples of those up to length 2, one callable; Callable types admit exactly the callable value",
          "can_do_lookup=False (names are already ClassTypes; no loader)",
          "CrossHair contract-enforcement tracer disabled",
      ],
      "trusted_base": ["the admits() oracle in harness/c11.py", "CrossHair 0.0.110", "z3"],
  }
