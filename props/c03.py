"""C03 spec."""

from vlib.e1 import Job

M = "harness.c03"


def jobs(tier):
  q = tier == "quick"
  t = 900 if q else 3600
  if q:
    return [
        Job("lineset", M, "h_lineset", dict(C03_LS_OPS=2, C03_MAXL=4), shards=31, timeout=t),
        Job("source", M, "h_source", dict(C03_NTEMPL=3, C03_SRC_PRIOR=0), shards=61, timeout=t,
            note="Directors built from source text through the real directors.parser; appended directive only"),
        Job("director-nested", M, "h_director",
            dict(C03_NPRIOR=0, C03_MAXL=5, C03_MINFUN=2, C03_MAXFUN=2, C03_QOPS=2, C03_ONLY_BRT=1, C03_EXTRA_CALL=0, C03_NDNAMES=3),
            shards=31, timeout=t, note="nested function ranges, implicit-return bad-return-type only"),
        Job("director-history", M, "h_director",
            dict(C03_NPRIOR=1, C03_MAXL=3, C03_MAXFUN=0, C03_PRIOR_CALL=0, C03_EXTRA_CALL=0, C03_QOPS=1, C03_NDNAMES=2, C03_PRIOR_KINDS=2), shards=127, timeout=t,
            note="one prior directive + the appended one, call ranges, no function ranges"),
        Job("director-functions", M, "h_director",
            dict(C03_NPRIOR=0, C03_MAXL=3, C03_MAXFUN=1, C03_QOPS=0, C03_NDNAMES=3), shards=61, timeout=t,
            note="the appended directive vs (nested) function ranges, return lines, implicit-return errors"),
    ]
  return [
      Job("lineset", M, "h_lineset", dict(C03_LS_OPS=3, C03_MAXL=4), shards=97, timeout=t),
      Job("director-history", M, "h_director",
          dict(C03_NPRIOR=1, C03_MAXL=4, C03_MAXFUN=0, C03_PRIOR_CALL=0, C03_EXTRA_CALL=0, C03_QOPS=1, C03_NDNAMES=2, C03_PRIOR_KINDS=4),
          shards=509, timeout=t),
      Job("director-functions", M, "h_director",
          dict(C03_NPRIOR=0, C03_MAXL=4, C03_MAXFUN=2, C03_QOPS=0, C03_NDNAMES=3), shards=251, timeout=t),
      Job("source-all-templates", M, "h_source", dict(C03_NTEMPL=6, C03_SRC_PRIOR=0), shards=127, timeout=t),
      Job("source", M, "h_source", dict(C03_NTEMPL=2, C03_SRC_PRIOR=1), shards=509, timeout=t,
          note="Directors built from source text through the real directors.parser; prior + appended directive"),
      Job("director-nested", M, "h_director",
          dict(C03_NPRIOR=0, C03_MAXL=5, C03_MINFUN=2, C03_MAXFUN=2, C03_QOPS=2, C03_ONLY_BRT=1, C03_EXTRA_CALL=0, C03_NDNAMES=3),
          shards=31, timeout=t),
  ]


KNOWN = {
    "implicit-return-shift": Job("known-implicit-return-shift", M, "h_director",
                                 dict(C03_NPRIOR=0, C03_MAXL=3, C03_MAXFUN=1, C03_QOPS=2), shards=8, timeout=300),
}


def meta(tier):
  return {
      "explanation": (
          "lineset: a history of per-line / open-ended operations with symbolic line numbers (documented "
          "precondition: open-ended lines non-decreasing) and a symbolic query line; `q in lineset` must equal the "
          "declarative meaning (last per-line entry for q, else polarity of the last open-ended directive at a line "
          "<= q). director-*: a real Director is built twice through its real __init__/_parse_src_tree "
          "(parser.visit_src_tree replaced by a stand-in carrying the comment parser's output: comment groups per "
          "statement LineRange / Call range, function ranges, return lines; all line numbers symbolic), once without "
          "and once with one more trailing `# pytype: disable=E` or `# type: ignore` at line L. For a symbolic raw "
          "error (class, line, opcode): (1) if the first Director reports it at L with class E, the second filters "
          "it; (2) otherwise both agree on verdict and reported line unless the class is E and the line is L or the "
          "start line of the statement/call range the directive was recorded in (the documented 'comment line AND "
          "adjusted start line' mechanism). Line numbers end up concretised by the real code (dict keys), so the "
          "solver's contribution is order/coincidence pruning and the exhaustion certificate."),
      "functions_encoded": [
          "pytype/directors/directors.py: _LineSet.set_line/start_range/__contains__, _BlockRanges.__init__/has_end/find_outermost/adjust_end, "
          "Director.__init__, _parse_src_tree, _process_type, _process_pytype, _process_disable, _adjust_line_number_for_pytype_directive, filter_error",
          "pytype/errors/errors.py: Error (for_test, set_line), ErrorLog.is_valid_error_name",
          "pytype/directors/parser.py (source job): parse_src, _process_comments, _ParseVisitor (structured_comment_groups, function_ranges, block_returns, decorators)"],
      "bounds": {j.name: j.params for j in jobs(tier)},
      "outside": ["comment extraction and the mapping of comments to statement ranges (directors/parser.py)",
                  "which line the VM reports an error on", "that the stub is unchanged by the comment",
                  "`# pytype: disable=*` as the appended directive (not what the property appends; see DESIGN.md)",
                  "a trailing `enable` inside a statement that also carries a disable", "decorators"],
      "rule": "one record per completed path keyed by the structural part (directive kinds/names, extra position, #functions, query class/opcode); all are non-trivial; evaluations counts paths (distinct line assignments)",
      "assumptions": [
          "parser output invariants: comments arrive in line order, at most one per line; statement ranges of different comments are identical or disjoint; a stand-alone comment forms its own single-line group; a call range is nested in its statement and contains the comment line; a statement lies inside (after the def line) or outside each function range",
          "compiler guarantee: an implicit `return None` carries the first line of the statement it follows, and a RETURN_VALUE bad-return-type lies inside a recorded function range",
          "prior trailing directives are disables",
          "CrossHair contract-enforcement tracer disabled",
      ],
      "trusted_base": ["CrossHair 0.0.110 int/dict models", "z3"],
  }
