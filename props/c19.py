"""C19 spec."""

from vlib.e1 import Job

M = "harness.c19"
# plan jobs only handle concrete strings: use CPython's own `re`, not CrossHair's model
RE = {"VERIF_UNPATCH": "re"}


def jobs(tier):
  q = tier == "quick"
  t = 600 if q else 3000
  out = [
      Job("plan-n3", M, "h_plan", dict(C19_N=3, C19_NKINDS=6), shards=61, timeout=t, env=RE),
      Job("plan-n5-dag", M, "h_plan", dict(C19_N=5, C19_DAG=1, C19_ALL_DIRECT=1), shards=31, timeout=t, env=RE,
          note="five requested modules, every acyclic import structure"),
      Job("escape-model-validation", M, "h_escape_model", {}, shards=1, timeout=t),
      Job("escape", M, "h_escape", dict(C19_STRLEN=4 if q else 5), shards=16 if q else 61, timeout=t),
      Job("imports-line", M, "h_imports_line", dict(C19_ILEN=3 if q else 5), shards=1, timeout=t),
  ]
  if not q:
    out.append(Job("plan-n4-all-requested", M, "h_plan", dict(C19_N=4, C19_ALL_DIRECT=1), shards=127, timeout=t, env=RE))
    out.append(Job("plan-n4-dag-3kinds", M, "h_plan", dict(C19_N=4, C19_DAG=1, C19_NKINDS=3), shards=127, timeout=t, env=RE))
  return out


KNOWN = {}


def meta(tier):
  return {
      "explanation": (
          "plan-*: a symbolic import graph (adjacency bits; module kind per node among Direct "
          "(=requested), Local, Builtin, System, System named pytype_extensions.*, local type stub .pyi) goes through a real "
          "importlab DependencyGraph (SCC collapse, untraced third-party code), the real "
          "deps_from_import_graph and PytypeRunner.setup_build with open/makedirs replaced by an "
          "in-memory file table; build.ninja and the .imports files are parsed back with an independent "
          "model of ninja's lexer and the real ImportsMapBuilder._read_from_file. Asserted: each "
          "requested file is checked exactly once and nothing else is; outputs unique; every declared "
          "dependency is produced by a statement; the dependency graph is acyclic; every imports-map "
          "entry is default.pyi or an output in the TRANSITIVE CLOSURE of the statement's declared "
          "dependencies (equivalent to: no schedule consistent with the declared dependencies reads a "
          "stub before it is written); every direct import has an imports-map entry. Directory names "
          "contain space, colon and dollar. escape: a symbolic str p (no newline, CR or '|', for which "
          "ninja has no escape) written as output and dependency of a build line is lexed back to p "
          "by the ninja lexer model, z3 reasoning over the string. imports-line: writer/reader "
          "round-trip of a symbolic full path over the alphabet {space,colon,dollar,a,/,tab}."),
      "functions_encoded": [
          "pytype/tools/analyze_project/pytype_runner.py: deps_from_import_graph, resolved_file_to_module, _get_filenames, _is_type_stub, "
          "PytypeRunner.__init__, get_module_action, yield_sorted_modules, get_imports_map, _module_to_output_path, write_default_pyi, "
          "write_imports, write_ninja_preamble, get_pytype_command_for_ninja, write_build_statement, setup_build, escape_ninja_path",
          "pytype/imports_map_loader.py: ImportsMapBuilder._read_from_file",
          "pytype/module_utils.py: Module"],
      "bounds": {j.name: j.params for j in jobs(tier)},
      "outside": ["importlab's import resolution and SCC collapse (third-party, run untraced)", "running ninja",
                  "module names containing special characters", "short paths containing spaces",
                  "paths containing newline, CR or '|' (ninja cannot represent them)", "more modules than the bound"],
      "rule": "one record per completed path keyed by (kinds, edges); non-trivial = at least 2 import edges; the string jobs record nothing (inputs stay symbolic)",
      "assumptions": [
          "open()/makedirs replaced by an in-memory file table (pure-Python text files so strings stay symbolic)",
          "conf stand-in with the documented fields (inputs, python_version, platform, output, keep_going, jobs, empty __slots__)",
          "ninja lexer model: `$ `, `$:`, `$$` escapes; bare space, colon, '|', newline terminate a path (15-line model of lexer.in.cc)",
          "escape job: CrossHair's symbolic model of re.sub is trusted for the pattern in escape_ninja_path; the escape-model-validation job compares that model with CPython's re on every string of length <= 3 over {space,colon,$,a} and fails as a harness error when they disagree (plan jobs run CPython's own re)",
          "ninja runs a statement only after all its transitive inputs are built (documented ninja semantics)",
          "CrossHair contract-enforcement tracer disabled",
      ],
      "trusted_base": ["importlab DependencyGraph.build/deps_list (networkx)", "CrossHair 0.0.110 str model", "z3"],
  }
