"""C10 spec."""

from vlib.e1 import Job

M = "harness.c10"


def jobs(tier):
  q = tier == "quick"
  t = 600 if q else 3000
  if q:
    return [
        Job("norepeat-n5", M, "h_mro", dict(C10_N=5, C10_MAXB=3, C10_REPEATS=0), shards=31, timeout=t),
        Job("repeat-n4", M, "h_mro", dict(C10_N=4, C10_MAXB=3, C10_REPEATS=1), shards=13, timeout=t),
        Job("n6-three-roots", M, "h_mro", dict(C10_N=6, C10_MAXB=2, C10_REPEATS=0, C10_ROOTS=3), shards=31, timeout=t,
            note="six classes, the first three without bases, at most two bases each"),
    ]
  return [
      Job("norepeat-n5", M, "h_mro", dict(C10_N=5, C10_MAXB=3, C10_REPEATS=0), shards=31, timeout=t),
      Job("norepeat-n6-b2", M, "h_mro", dict(C10_N=6, C10_MAXB=2, C10_REPEATS=0), shards=97, timeout=t),
      Job("repeat-n5", M, "h_mro", dict(C10_N=5, C10_MAXB=3, C10_REPEATS=1), shards=97, timeout=t),
  ]


KNOWN = {}


def meta(tier):
  return {
      "explanation": (
          "Every hierarchy of N classes with up to MAXB bases each (chosen among "
          "earlier classes, `object` implicit) is decoded from selectors by "
          "solver-decided forks and linearised by (a) pytd.mro.GetBasesInMRO on real "
          "pytd.Class/ClassType nodes and (b) class_mixin.Class.compute_mro + "
          "abstract_utils.get_mro_bases on stand-in class objects; both are compared "
          "with CPython's own type() on the same path: TypeError <=> MROError, else "
          "identical order. All inputs are structural, so the solver's role is the "
          "certified exhaustive walk of the bounded space (no arithmetic reasoning)."),
      "functions_encoded": [
          "pytype/pytd/mro.py: MergeSequences, Dedup, MROMerge, _ComputeMRO, _GetClass, _Degenerify, GetBasesInMRO",
          "pytype/abstract/class_mixin.py: Class.compute_mro",
          "pytype/abstract/abstract_utils.py: get_mro_bases"],
      "bounds": {j.name: j.params for j in jobs(tier)},
      "outside": ["attribute lookup through attribute.py", "the [mro-error] line produced by vm_utils.make_class (VM)",
                  "generic bases, metaclasses", "stub classes with a repeated direct base (no CPython counterpart)"],
      "rule": "one record per completed path keyed by the decoded hierarchy; non-trivial = some class has >= 2 bases",
      "assumptions": [
          "interpreter classes are represented by stand-ins exposing bases()/mro/full_name, which is all compute_mro reads",
          "CPython's type() is the oracle (trusted)",
          "CrossHair contract-enforcement tracer disabled",
      ],
      "trusted_base": ["CPython type() C3 implementation", "CrossHair 0.0.110", "z3"],
  }
