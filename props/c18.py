"""C18 spec."""

from vlib.e1 import Job

M = "harness.c18"


def jobs(tier):
  q = tier == "quick"
  t = 500 if q else 3000
  return [
      Job("cond", M, "h_cond",
          dict(C18_A_DEPTH=3, C18_A_ARITY_ROOT=2, C18_A_ARITY_MID=2),
          shards=31 if q else 61, timeout=t),
      Job("var", M, "h_var", dict(C18_U=1, C18_B_MAXN=2 if q else 3),
          shards=16 if q else 47, timeout=t),
      Job("merge-1name", M, "h_merge1", dict(C18_U=0 if q else 1, C18_U2=1),
          shards=47 if q else 97, timeout=t),
      Job("step-2names", M, "h_step", dict(C18_U=0, C18_U2=0 if q else 1),
          shards=31 if q else 61, timeout=t),
      Job("hist", M, "h_hist",
          dict(C18_HU=-1, C18_H_PREFIX=1 if q else 2, C18_H_TRACK=1),
          shards=31 if q else 61, timeout=t),
  ] + ([] if q else [
      Job("cond-depth2-arity3", M, "h_cond",
          dict(C18_A_DEPTH=2, C18_A_ARITY_ROOT=3, C18_A_ARITY_MID=3), shards=7, timeout=t),
      Job("merge-2names", M, "h_merge2", dict(C18_U=-1, C18_U2=0),
          shards=64, timeout=t),
  ])


def meta(tier):
  return {
      "explanation": (
          "conditions.And/Or/Not, Variable.with_condition and BlockState."
          "store_local/load_local/get_locals/with_condition/merge_into are "
          "executed under CrossHair. Truth assignments of the atoms a,b,c are "
          "symbolic booleans; the meaning of every real Condition is built as "
          "one z3 term and compared with the oracle in a single query per "
          "path, so 'under every truth assignment' is decided by the solver. "
          "cond: term trees vs and/or/not. var: with_condition restricts each "
          "binding by exactly c. merge-*/step-*: ONE step from an ARBITRARY "
          "pre-state satisfying the representation invariant Inv (bindings of "
          "a name not implicitly guarded imply the block condition), post: "
          "Inv again + active-value sets are the union (merge) / restricted "
          "by exactly c (with_condition) / only the stored name changes "
          "(store_local) + inputs not mutated/aliased. hist: bounded histories "
          "from the empty state on two tracks from a common ancestor, then "
          "merge, compared after every operation with an independent model "
          "(name -> value -> truth under nu)."),
      "functions_encoded": [
          "pytype/rewrite/flow/conditions.py: _Not.make, _Composite.make (And, Or), dataclass eq/hash",
          "pytype/rewrite/flow/variables.py: Variable.with_condition, from_value, with_name, Binding",
          "pytype/rewrite/flow/state.py: BlockState.__init__, store_local, load_local, get_locals, with_condition, merge_into"],
      "bounds": {j.name: j.params for j in jobs(tier)},
      "outside": ["frame_base.py stepping", "more than 2 names / 2 values", "condition universes beyond the listed ones"],
      "rule": ("one record per completed path keyed by the decoded input; non-trivial: "
               "cond = root is Not/And/Or; var = at least one binding; merge = both states have a local; "
               "step = state has a local; hist = at least two stores"),
      "assumptions": [
          "representation invariant Inv assumed for pre-states of the one-step harnesses (validated as an invariant by the hist job, which asserts Inv after every operation of reachable histories)",
          "atomic conditions are frozen dataclasses subclassing Condition (Atom stub)",
          "CrossHair contract-enforcement tracer disabled",
      ],
      "trusted_base": ["CrossHair 0.0.110 symbolic bool model", "z3"],
  }
