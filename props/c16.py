"""C16 spec."""

from vlib.e1 import Job

M = "harness.c16"


def jobs(tier):
  q = tier == "quick"
  t = 900 if q else 3600
  if q:
    return [
        Job("graph-n3", M, "h_graph", dict(C16_GN=3), shards=16, timeout=t),
        Job("code-k4-noexc", M, "h_code", dict(C16_KOPS=4, C16_NEXC=0), shards=61, timeout=t),
        Job("code-k3-exc", M, "h_code", dict(C16_KOPS=3, C16_NEXC=1), shards=61, timeout=t),
        Job("real-programs", M, "h_real", dict(C16_NSTMT=8, C16_NWRAP=4), shards=61, timeout=t,
            note="real CPython output for generated programs (two statements x wrapper x loop x tail)"),
        Job("real-split-try", M, "h_real", dict(C16_REALSET=1, C16_NSTMT=8, C16_NWRAP=4), shards=31, timeout=t,
            note="try bodies that the compiler cuts into several exception-table entries (inlined comprehensions, loops with break, return)"),
    ]
  return [
      Job("graph-n4", M, "h_graph", dict(C16_GN=4), shards=251, timeout=t),
      Job("code-k5-noexc", M, "h_code", dict(C16_KOPS=5, C16_NEXC=0), shards=509, timeout=t),
      Job("code-k4-exc", M, "h_code", dict(C16_KOPS=4, C16_NEXC=1, C16_GAPS=1), shards=509, timeout=t,
          note="inline caches after every other instruction only"),
      Job("code-k4-2exc", M, "h_code", dict(C16_KOPS=4, C16_NEXC=2, C16_MINEXC=2, C16_NOEG=1, C16_GAPS=1), shards=251, timeout=t,
          note="exactly two disjoint exception-table entries ending on instruction boundaries (try/except followed by, or nested in, another)"),
      Job("real-programs", M, "h_real", dict(C16_NSTMT=22, C16_NWRAP=6), shards=251, timeout=t),
      Job("real-split-try", M, "h_real", dict(C16_REALSET=1, C16_NSTMT=8, C16_NWRAP=6), shards=61, timeout=t,
          note="try bodies that the compiler cuts into several exception-table entries (inlined comprehensions, loops with break, return)"),
  ]


KNOWN = {
    "handler-only-via-setup": Job("known-handler-only-via-setup", M, "h_code",
                                  dict(C16_KOPS=3, C16_NEXC=1), shards=8, timeout=300),
}


def meta(tier):
  return {
      "explanation": (
          "graph: cfg_utils.compute_predecessors equals the reflexive transitive closure and order_nodes lists exactly "
          "the nodes reachable from node 0, each once, every non-root node after one of its direct predecessors, for "
          "every digraph on N nodes (symbolic adjacency bits). code: a synthetic pycnite disassembly (KOPS instructions "
          "of kind plain / conditional jump / unconditional jump / return / raise, symbolic in-range jump targets, "
          "inline-cache gaps, up to NEXC exception-table entries with symbolic start <= end < target, end possibly "
          "inside a cache gap, lasti flag) goes through the real opcodes.build_opcodes, blocks.add_pop_block_targets and "
          "blocks.compute_order; asserted: indices 0..n-1 and next/prev consistent; every jump resolved to the op at "
          "the offset it named and indexed by its arg; a SETUP_EXCEPT_311 targeting the handler immediately before and a "
          "POP_BLOCK immediately after each range that gets a block, none for lasti entries; blocks non-empty runs of "
          "consecutive instructions whose id is their first index; no instruction in two blocks; every target of a "
          "reachable jump starts a block; the order starts at the entry, lists no block twice, lists every block "
          "reachable at INSTRUCTION level from the entry, and places a predecessor before every non-entry block. "
          "real-programs: function bodies generated from selectors (two statements out of 22 kinds incl. yield/del/assert/match/nested def/lambda/for-else and return/raise/"
          "continue/break/if/for/while/with/comprehension, one of 6 wrappers incl. try/except, try/finally, "
          "try/except/else/finally, with, nested try; optionally inside a loop) are compiled by CPython (set-up, "
          "untraced) and every code object goes through the same real functions and the same block-graph checks plus "
          "link and jump-resolution checks. real-split-try: the same over a second statement list whose try bodies the "
          "compiler cuts into several exception-table entries on one line (inlined comprehensions, loops with break, "
          "return, nested try/finally); on real compiler output a 'POP_BLOCK without block' assertion is a failure. "
          "Structural inputs: solver-certified exhaustive walk."),
      "functions_encoded": [
          "pytype/pyc/opcodes.py: build_opcodes, _make_opcodes, _add_setup_except, _add_exception_block, _get_exception_bitmask, _make_opcode_list, _should_elide_opcode, _add_jump_targets, _add_async_for_jump_back_targets",
          "pytype/blocks/blocks.py: add_pop_block_targets, _split_bytecode, _remove_jump_back_block, _remove_jmp_to_get_anext_and_merge, compute_order, Block",
          "pytype/typegraph/cfg_utils.py: compute_predecessors, order_nodes"],
      "bounds": {j.name: j.params for j in jobs(tier)},
      "outside": ["SEND / GET_ANEXT / END_ASYNC_FOR surgery (async, generators)", "compiler output beyond the generated program grammar; the standard-library corpus",
                  "pycnite's decoding of code objects", "process_blocks / constant folding"],
      "rule": "one record per completed path keyed by the adjacency bits / the instruction list and exception table; non-trivial: graph = at least 2 edges, code = has a jump or an exception entry",
      "assumptions": [
          "compiler guarantees assumed: the last instruction does not fall through; a handler follows its protected range; a range that gets a block ends strictly before the last instruction; jumps target instruction starts; exception-table entries are disjoint and sorted by start",
          "synthetic inputs on which add_pop_block_targets asserts 'POP_BLOCK without block' are not block-structured and are skipped (on real compiler output the assertion is a failure)",
          "CrossHair contract-enforcement tracer disabled",
      ],
      "trusted_base": ["pycnite.types dataclasses", "CrossHair 0.0.110", "z3"],
  }
