"""C02 spec."""

from vlib.e1 import Job

M = "harness.c02"
WR = {"VERIF_UNPATCH": "weakref"}


def jobs(tier):
  q = tier == "quick"
  t = 900 if q else 3000
  if q:
    return [
        Job("enforce-l2", M, "h_enforce", dict(C02_LEVEL=2), shards=31, timeout=t, env=WR,
            note="depth <= 2 grammar plus depth-3 forms x all values x three sites"),
    ]
  return [
      Job("enforce-l3", M, "h_enforce", dict(C02_LEVEL=3), shards=97, timeout=t, env=WR,
          note="level 2 plus a user Protocol, an int subclass, frozenset, 3-member unions, nested mappings, "
               "Any/object element types (140 annotations x 64 values)"),
  ]


def validate(tier, cfg_dir):
  """Kernel entry points vs the full pipeline (io.check_py) on a stride of the pairs."""
  import os, subprocess, sys  # pylint: disable=g-import-not-at-top,multiple-imports
  from concurrent.futures import ThreadPoolExecutor  # pylint: disable=g-import-not-at-top
  runs = [(23, 5)] if tier == "quick" else [(8, r) for r in range(8)]
  env = dict(os.environ, VERIF_CFG_DIR=cfg_dir, VERIF_PARAM_C02_LEVEL=("2" if tier == "quick" else "3"), PYTHONPATH="/verif",
             VERIF_TIER=tier)
  for k in ("VERIF_KF_ONLY", "VERIF_KF_EXCLUDE", "VERIF_RECORD", "VERIF_TWIN"):
    env.pop(k, None)

  def one(sr):
    p = subprocess.run([sys.executable, "-W", "ignore", "-m", "harness.c02_e2e", str(sr[0]), str(sr[1])],
                       env=env, capture_output=True, text=True, timeout=3000, cwd="/verif")
    lines = [l for l in p.stdout.splitlines() if l.startswith(("C02-E2E", "  DISAGREE", "  STRAY"))]
    return {"ok": p.returncode == 0, "stride": sr[0], "offset": sr[1],
            "summary": "; ".join(lines) or ("rc=%d %s" % (p.returncode, p.stderr[-300:]))}
  with ThreadPoolExecutor(8) as ex:
    return list(ex.map(one, runs))


KNOWN = {
    "callable-kwonly-arity": Job("known-callable-kwonly-arity", M, "h_enforce", dict(C02_LEVEL=0), shards=4, timeout=600, env=WR),
    "asg-none-allowed": Job("known-asg-none-allowed", M, "h_enforce", dict(C02_LEVEL=0), shards=4, timeout=600, env=WR),
    "none-as-bool": Job("known-none-as-bool", M, "h_enforce", dict(C02_LEVEL=0), shards=4, timeout=600, env=WR),
    "arg-any-view": Job("known-arg-any-view", M, "h_enforce", dict(C02_LEVEL=0), shards=4, timeout=600, env=WR),
}


def meta(tier):
  return {
      "explanation": (
          "One program (class hierarchy A, B(A), C; one annotated function per annotation of the bounded grammar; one "
          "module constant per ground value expression) is run once through the real VM at set-up, outside the tracer; "
          "the annotations' and values' abstract objects are therefore exactly what the VM builds for such source. Per "
          "path a pair (annotation, value) chosen by two symbolic selectors goes through the real code of the three "
          "enforcement sites with all of matcher.py traced: InterpreterFunction.match_args (-> compute_matches, "
          "WrongArgTypes), CallTracer._check_return (-> compute_one_match, bad_return_type) and "
          "Context.check_annotation_type_mismatch; each site must report an error iff the CPython run-time value of the "
          "same expression is not a member of the annotation according to an independent membership oracle. All inputs "
          "are structural: the solver's role is the certified exhaustive walk of the bounded pair space."),
      "functions_encoded": [
          "pytype/matcher.py: AbstractMatcher.compute_matches, compute_one_match, match_var_against_type, "
          "_match_value_against_type, _match_type_against_type, match_from_mro, _match_instance*, tuple/callable/"
          "protocol matching, _get_bad_type (everything the pairs reach)",
          "pytype/abstract/_interpreter_function.py: InterpreterFunction.match_args",
          "pytype/abstract/_function_base.py: SignedFunction.match_args, _match_args_sequentially",
          "pytype/abstract/function.py: Signature.iter_args, Args",
          "pytype/tracer_vm.py: CallTracer._check_return",
          "pytype/context.py: Context.check_annotation_type_mismatch",
          "pytype/errors/errors.py: bad_return_type, annotation_type_mismatch",
          "pytype/abstract/abstract_utils.py: get_views; typegraph queries (CanHaveCombination/HasCombination) run "
          "in the compiled extension on concrete graphs"],
      "bounds": {j.name: dict(j.params, annotations="see harness/c02.py _grammar", values=(51 if tier == "quick" else 66)) for j in jobs(tier)},
      "outside": [
          "how the VM turns source into annotation/value objects beyond the one set-up run (annotation_utils, "
          "vm.py byte_* run untraced at set-up)",
          "values with more than one binding, type parameters / generic user classes, user Protocols, TypedDict, "
          "Literal, NewType",
          "str/bytes values against Sequence/Iterable annotations (pytype's documented 'noniterable strings' rule)",
          "classes and builtins without inspectable signature as Callable[[...], ...] values",
          "the reported line and message of the error"],
      "rule": "one record per completed path keyed by (annotation, value expression); non-trivial = the oracle says "
              "the value is outside the type",
      "assumptions": [
          "set-up runs the real VM natively on one generated program; the program must analyse without errors "
          "(asserted)",
          "membership oracle member() over run-time values is trusted (60 lines, harness/c02.py)",
          "a function value inhabits Callable[[T1..Tn], Any] iff inspect.signature(v).bind accepts n positionals",
          "CrossHair contract-enforcement tracer disabled",
      ],
      "trusted_base": ["CPython eval of the value expressions", "the membership oracle", "CrossHair 0.0.110", "z3"],
  }
