"""C05 spec."""

from vlib.e1 import Job

M = "harness.c05"


def jobs(tier):
  q = tier == "quick"
  t = 900 if q else 3600
  if q:
    return [
        Job("func", M, "h_func", dict(C05_MAXP=2, C05_NTYPES=1), shards=127, timeout=t),
        Job("class", M, "h_class", dict(C05_NTYPES=2), shards=61, timeout=t),
        Job("types", M, "h_types", dict(C05_NTYPES_ALL=6), shards=61, timeout=t),
        Job("resolved", M, "h_resolved", {}, shards=31, timeout=t,
            note="text printed from ASTs resolved by the real AdjustTypeParameters / AdjustSelf visitors"),        Job("typevars", M, "h_typevars", {}, shards=16, timeout=t,
            note="type variables the emitter must declare itself (none declared at module level; same name in two scopes)"),
    ]
  return [
      Job("func", M, "h_func", dict(C05_MAXP=2, C05_NTYPES=6), shards=509, timeout=t),
      Job("class", M, "h_class", dict(C05_NTYPES=5), shards=251, timeout=t),
      Job("types", M, "h_types", dict(C05_NTYPES_ALL=18), shards=509, timeout=t),
      Job("resolved", M, "h_resolved", {}, shards=31, timeout=t,
          note="text printed from ASTs resolved by the real AdjustTypeParameters / AdjustSelf visitors"),      Job("typevars", M, "h_typevars", {}, shards=16, timeout=t,
          note="type variables the emitter must declare itself (none declared at module level; same name in two scopes)"),
  ]


KNOWN = {}


def meta(tier):
  return {
      "explanation": (
          "A stub text in the dialect output.py emits is generated from selectors and pushed through the real chain "
          "parse -> VerifyVisitor -> Print -> parse -> VerifyVisitor -> Print and canonical_pyi twice. Asserted: both parses "
          "succeed and verify; the declarations read from the generated text match the SPEC it was generated from "
          "(parameter names, kinds POSONLY/REGULAR/KWONLY, optional flags, *args/**kwargs presence, overload count; "
          "class bases, constants, nested classes, decorators, method kinds, property form); the text pytype prints for "
          "it says the same when re-read; Print(parse(t1)) == t1; parse(t1) is ASTeq to what was printed; canonical_pyi "
          "is idempotent. func: every signature with up to MAXP parameters of each kind, trailing positional defaults, "
          "keyword-only default masks, *args or bare *, **kwargs, with/without overloads. class: bases none/A/Generic[T]/"
          "both, method/staticmethod/classmethod/property (Annotated form), constant, nested class, @final. types: "
          "constant/parameter/return types over 18 forms (Optional, Union, Callable incl. ..., tuple forms incl. (), "
          "Literal of int/str/bool, type[.], dict/list nesting, TypeVar) plus a type alias and a module-qualified type. "
          "resolved: a class nested 0-2 deep in a generic or plain outer class, with a method / classmethod / staticmethod / "
          "property whose first parameter is unannotated, annotated with the short or with the qualified class name, is "
          "parsed and then RESOLVED by the real visitors the emitter applies (AdjustTypeParameters: class templates; "
          "AdjustSelf plain or forced: self / cls types); the text printed from that resolved AST must be a fixed point of "
          "plain parse-then-print, equal to the text printed before resolving, and verify. "
          "typevars: ASTs in which signatures use type variables that have no module-level declaration, optionally two "
          "different variables of one name (class-scoped TypeVars of an inferred AST; derived from a parsed stub by "
          "dropping declarations and renaming, since stub text cannot express it) go through the real "
          "AdjustTypeParameters; no name is declared twice and the printed text is a fixed point. "
          "Structural inputs: solver-certified exhaustive walk."),
      "functions_encoded": [
          "pytype/pytd/printer.py: PrintVisitor (all Visit*/Enter*/Leave* reached), import bookkeeping; pytype/pytd/pytd_utils.py: Print, ASTeq",
          "pytype/pyi/parser.py: parse_string, parse_pyi, _GeneratePytdVisitor, post_process_ast, canonical_pyi",
          "pytype/pyi/definitions.py, function.py (incl. _apply_defaults, _pytd_signature), classdef.py, modules.py, types.py, conditions.py",
          "pytype/pytd/visitors.py: VerifyVisitor, CanonicalOrderingVisitor, ClassTypeToNamedType, AdjustTypeParameters, AdjustSelf, ClassAsType"],
      "bounds": {j.name: j.params for j in jobs(tier)},
      "outside": ["stubs emitted for analysed programs (first sentence of the property; needs the VM)",
                  "names needing escaping, ParamSpec, Concatenate, decorators other than the method kinds and @final",
                  "`@property def` form (the parser reads it, pytype does not emit it)",
                  "CPython's ast.parse on the concrete text (trusted)"],
      "rule": "one record per completed path keyed by the generated stub text (resolved: plus the pipeline); non-trivial: func = at least one parameter, class/types/resolved always",
      "assumptions": ["the stub is parsed without a module name, as parser.canonical_pyi does",
                      "CrossHair contract-enforcement tracer disabled"],
      "trusted_base": ["CPython ast.parse", "CrossHair 0.0.110", "z3"],
  }
