"""C13 spec."""

from vlib.e1 import Job

M = "harness.c13"


def jobs(tier):
  q = tier == "quick"
  t = 900 if q else 3600
  if q:
    return [
        Job("p1-pos3-kw3", M, "h_bind", dict(C13_MAXP=1, C13_MAXPOS=3, C13_MAXKW=3), shards=23, timeout=t),
        Job("p2-noko-pos3-kw1", M, "h_bind", dict(C13_MAXP=2, C13_MAXKO=0, C13_MAXPOS=3, C13_MAXKW=1), shards=23, timeout=t),
        Job("p1-star-call", M, "h_bind", dict(C13_MAXP=1, C13_MAXPOS=3, C13_MAXKW=2, C13_EX=1), shards=47, timeout=t,
            note="f(*tuple, **dict) call form through Args.simplify"),
    ]
  return [
      Job("p1-pos3-kw3", M, "h_bind", dict(C13_MAXP=1, C13_MAXPOS=3, C13_MAXKW=3), shards=23, timeout=t),
      Job("p2-pos5-kw3", M, "h_bind", dict(C13_MAXP=2, C13_MAXPOS=5, C13_MAXKW=3), shards=383, timeout=t),
      Job("p2-star-call", M, "h_bind", dict(C13_MAXP=2, C13_MAXPOS=3, C13_MAXKW=1, C13_EX=1), shards=251, timeout=t,
          note="f(*tuple, **dict) call form through Args.simplify"),
  ]


KNOWN = {}


def meta(tier):
  return {
      "explanation": (
          "A signature shape (#positional-only, #positional-or-keyword, #keyword-only <= MAXP each; "
          "number of trailing positional defaults; default bit per keyword-only; *args?; **kwargs?) and a "
          "call shape (#positional <= MAXPOS; a subset of <= MAXKW keyword names among the parameter names "
          "plus one foreign name) are decoded from selectors by solver-decided forks. The real "
          "SignedFunction._map_args (on a real abstract.SimpleFunction) and the real "
          "PyTDSignature._map_args + _fill_in_missing_parameters (on a real pytd.Signature) run traced "
          "against a real pytype Context created once at import. Oracle: CPython itself - a function with "
          "that signature is defined and called; TypeError <=> FailedFunctionCall, and on success every "
          "formal parameter (incl. the *args tuple and the **kwargs dict for interpreter functions) holds "
          "the argument CPython binds. *-star-call jobs: the same call shapes passed the way the compiler passes "
          "calls with star-arguments -- all positionals in one concrete tuple (*args), all keywords in one concrete "
          "dict (**kwargs) -- and flattened by the real Args.simplify (traced) before binding. Structural inputs only: the solver's role is the certified "
          "exhaustive walk of the bounded space."),
      "functions_encoded": [
          "pytype/abstract/_function_base.py: SignedFunction._map_args, argcount, get_nondefault_params",
          "pytype/abstract/_pytd_function.py: PyTDSignature._map_args, _fill_in_missing_parameters",
          "pytype/abstract/function.py: Args, Args.simplify, starargs_as_tuple, starstarargs_as_dict, Signature, has_visible_namedarg (incl. cfg HasCombination), argname",
          "pytype/errors/error_types.py: DuplicateKeyword, WrongKeywordArgs, MissingParameter, WrongArgCount (raised; constructors untraced)"],
      "bounds": {j.name: j.params for j in jobs(tier)},
      "outside": ["`*`/`**` at the call site with non-concrete iterables/mappings or mixed with explicit arguments", "bound methods / classmethods / constructors (the VM prepends self)",
                  "overload selection", "the error line", "more than MAXP parameters of a kind"],
      "rule": "one record per completed path keyed by (signature, call shape); non-trivial = the call passes at least one argument",
      "assumptions": [
          "real Context/loader/Program created once per worker at import time (untraced)",
          "set-up (Signature, SimpleFunction, PyTDSignature, Args) is built untraced and cached per signature",
          "abstract Dict (for **kwargs), convert.build_tuple (for *args), new_unsolvable and the error constructors are the real code but run outside the tracer (conversion/formatting machinery, ~0.5 s per call when traced)",
          "CPython's function call is the oracle",
          "CrossHair contract-enforcement tracer disabled",
      ],
      "trusted_base": ["CPython argument binding", "CrossHair 0.0.110", "z3"],
  }
