"""C17 spec: jobs, bounds and evidence text."""

from vlib.e1 import Job

M = "harness.c17"


def _cfg(tier):
  if tier == "quick":
    return [
        ("d2", dict(C17_DEPTH=2, C17_NV=2, C17_NVAL=2, C17_ARITY=3, C17_SWAP=0)),
        ("d2swap", dict(C17_DEPTH=2, C17_NV=2, C17_NVAL=2, C17_ARITY=2, C17_SWAP=1)),
        ("d3narrow", dict(C17_DEPTH=3, C17_NV=2, C17_NVAL=2, C17_ARITY=2, C17_SWAP=0, C17_NARROW=2)),
        ("d4chain", dict(C17_DEPTH=4, C17_NV=2, C17_NVAL=3, C17_ARITY=2, C17_SWAP=0, C17_NARROW=2,
                         C17_NARROW_ALL=1, C17_CHAIN=1)),
    ]
  return [
      ("d2-3v2", dict(C17_DEPTH=2, C17_NV=3, C17_NVAL=2, C17_ARITY=3, C17_SWAP=1)),
      ("d2-2v3", dict(C17_DEPTH=2, C17_NV=2, C17_NVAL=3, C17_ARITY=3, C17_SWAP=1)),
      ("d3", dict(C17_DEPTH=3, C17_NV=2, C17_NVAL=2, C17_ARITY=2, C17_SWAP=0, C17_NARROW=1)),
      ("d4chain", dict(C17_DEPTH=4, C17_NV=2, C17_NVAL=2, C17_ARITY=2, C17_SWAP=0, C17_NARROW=1, C17_CHAIN=1)),
  ]


def jobs(tier):
  out = []
  for name, params in _cfg(tier):
    t = 400 if tier == "quick" else 2400
    small = name == "d2swap"
    out.append(Job("build-" + name, M, "h_build", params,
                   shards=7 if small else 31, timeout=t))
    out.append(Job("simplify-" + name, M, "h_simplify", params,
                   shards=11 if small else 47, timeout=t))
  return out


def meta(tier):
  return {
      "explanation": (
          "The real booleq constructors (Eq, And, Or -> simplify_exprs) and "
          "_Eq/_And/_Or.simplify are executed under CrossHair on a symbolic "
          "term (selector vector of a complete ternary tree), a symbolic "
          "assignment sigma and, for simplify, a table whose membership tests "
          "return symbolic booleans. The oracle evaluates the selector tree "
          "with ==/all/any and is compared with the evaluation of the real "
          "term as ONE solver term per path, so z3 decides the equivalence "
          "for every sigma (and every table admitting sigma) at once; the "
          "term shapes are walked exhaustively by solver-decided forks. "
          "Bounded: see bounds."),
      "functions_encoded": [
          "pytype/pytd/booleq.py: Eq, And, Or, simplify_exprs, _Eq.__eq__/__hash__/simplify, "
          "_And.__eq__/__hash__/simplify, _Or.__eq__/__hash__/simplify, _expr_set_hash"],
      "bounds": {name: params for name, params in _cfg(tier)},
      "outside": ["Solver.solve / extract_pivots", "type_match.py, convert_structural.py consumers",
                  "terms deeper than the stated depth or with more children than ARITY"],
      "rule": ("one record per completed path, keyed by the decoded term tree; "
               "non-trivial = root is And/Or with at least one child"),
      "assumptions": [
          "simplify precondition: sigma(x) in T[x] for every variable x (the documented meaning of 'still possible values')",
          "every variable has a table entry (as in Solver.solve)",
          "table entries are set-like objects answering `in` (SymSet stub); Eq(var,var).simplify only tests `right in assignments`",
          "CrossHair contract-enforcement tracer disabled",
      ],
      "trusted_base": ["CrossHair 0.0.110 symbolic int/bool models", "z3"],
  }
