"""C12 spec."""

from vlib.e1 import Job

M = "harness.c12"


def jobs(tier):
  q = tier == "quick"
  t = 900 if q else 3600
  if q:
    return [
        Job("law", M, "h_law", dict(C12_NLEAVES=4, C12_COMP=2, C12_DEPTH=2), shards=47, timeout=t),
        Job("law-all-leaves", M, "h_law", dict(C12_NLEAVES=12, C12_COMP=1, C12_DEPTH=1), shards=7, timeout=t,
            note="pairs of all twelve leaf kinds, no composites"),
        Job("perm", M, "h_perm", dict(C12_PDEPTH=2, C12_PNLEAVES=6, C12_PCOMP=5), shards=23, timeout=t),
        Job("roundtrip", M, "h_roundtrip", dict(C12_RT_TYPES=4), shards=61, timeout=t),
    ]
  return [
      Job("law", M, "h_law", dict(C12_NLEAVES=5, C12_COMP=4, C12_DEPTH=2), shards=251, timeout=t),
      Job("law-leaves6", M, "h_law", dict(C12_NLEAVES=6, C12_COMP=2, C12_DEPTH=2), shards=251, timeout=t,
          note="six leaf kinds, unions and lists only"),
      Job("law-all-leaves", M, "h_law", dict(C12_NLEAVES=12, C12_COMP=1, C12_DEPTH=1), shards=7, timeout=t),
      Job("perm", M, "h_perm", dict(C12_PDEPTH=2, C12_PNLEAVES=12, C12_PCOMP=5), shards=47, timeout=t),
      Job("perm-nested", M, "h_perm", dict(C12_PDEPTH=3, C12_PNLEAVES=2, C12_PCOMP=2, C12_PERM_INNER=2), shards=127, timeout=t),
      Job("roundtrip", M, "h_roundtrip", dict(C12_RT_TYPES=12), shards=127, timeout=t),
  ]


KNOWN = {}


def meta(tier):
  return {
      "explanation": (
          "law: two pytd type trees decoded from independent selectors (leaves: the same class named through "
          "NamedType / ClassType without and with cls pointer, str, Any, nothing, Literal[1], Literal[True], a "
          "TypeParameter; composites: Union, list[...], tuple[...], Callable, tuple[T, ...]); asserted: == symmetric, "
          "a == b => hash(a) == hash(b), {a, b} and {a: ., b: .} keep one entry. perm: one tree and a symbolic "
          "permutation (or duplication) of every union's members: the permuted type is equal, hash-equal, collapses "
          "in a set, dict lookup succeeds, unions are flat and duplicate-free. roundtrip: stub text in the emitted "
          "dialect -> serialize_ast.SourceToExportableAst (set-up, untraced) -> SerializeAst -> Encode -> DecodeAst; "
          "decoded AST is ASTeq to and prints like the canonically ordered original; re-encoding the decoded object and "
          "re-serialising both ASTs give identical bytes. Inputs are structural: the solver certifies the exhaustive "
          "walk; msgspec's encoder/decoder are C code operating on values that are concrete on every path."),
      "functions_encoded": [
          "pytype/pytd/pytd.py: _SetOfTypes.__eq__/__hash__/__post_init__, _FlattenTypes, ClassType.__eq__/__hash__, msgspec-generated __eq__/__hash__ of NamedType, GenericType, TupleType, CallableType, Literal, TypeParameter, AnythingType, NothingType",
          "pytype/pytd/serialize_ast.py: SerializeAst, SourceToExportableAst (set-up), UndoModuleAliasesVisitor, ClearLookupCache",
          "pytype/imports/pickle_utils.py: Serialize, Encode, DecodeAst",
          "pytype/pytd/pytd_utils.py: ASTeq, Print; visitors.CanonicalOrderingVisitor, ClearClassPointers, CollectDependencies"],
      "bounds": {j.name: j.params for j in jobs(tier)},
      "outside": ["ASTs emitted for analysed programs and the bundled stubs", "`!=` between type nodes (not part of the property; see DESIGN.md)",
                  "gzip container bytes (Save with compress=True)"],
      "rule": "one record per completed path keyed by the decoded pair / permuted pair / stub text; non-trivial: law = both sides composite, perm and roundtrip always",
      "assumptions": [
          "roundtrip: re-encoding is compared on the decoded object before any Lookup fills the unit's name cache (the normal path, SerializeAst, clears it)",
          "a real loader resolves the generated stub (created once per worker, untraced)",
          "CrossHair contract-enforcement tracer disabled",
      ],
      "trusted_base": ["msgspec msgpack encoder/decoder (C)", "CrossHair 0.0.110", "z3"],
  }
