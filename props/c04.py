"""C04 spec."""

from vlib.e1 import Job

M = "harness.c04"


def jobs(tier):
  q = tier == "quick"
  t = 900 if q else 3600
  if q:
    return [
        Job("errors-3", M, "h_errors", dict(C04_NERR=3, C04_NREPR=4), shards=61, timeout=t),
        Job("errors-4-same-position", M, "h_errors", dict(C04_NERR=4, C04_NREPR=1), shards=31, timeout=t,
            note="four errors with one representation, all traceback shapes"),
        Job("canon", M, "h_canon", dict(C04_NP3=3), shards=61, timeout=t),
    ]
  return [
      Job("errors-4", M, "h_errors", dict(C04_NERR=4, C04_NREPR=4), shards=509, timeout=t),
      Job("errors-5-same-position", M, "h_errors", dict(C04_NERR=5, C04_NREPR=1), shards=61, timeout=t),
      Job("canon", M, "h_canon", dict(C04_NP3=6), shards=251, timeout=t),
  ]


KNOWN = {}


def meta(tier):
  return {
      "explanation": (
          "errors-*: ErrorLog.unique_sorted_errors / _sorted_errors / _compare_traceback_strings on a symbolic list of "
          "real Error objects (representation among 4 positions/messages incl. a file-less one; traceback among none, S, "
          "x+S, y+S and an unrelated Z): output sorted by (file, line); outputs are inputs, none twice; no two outputs of "
          "one representation have comparable tracebacks; every input is represented by an equal-or-shorter traceback; at "
          "most MAX_TRACEBACKS per representation. canon: pytd_utils.CanonicalOrdering on a unit (3 constants, 2 type "
          "params, 2 aliases, 2 functions with 2 signatures/exceptions/unions, 2 classes with 3 fields, 2 methods, nested "
          "classes, slots, decorators none/final/dataclass/two) whose every sortable tuple is permuted by selectors: "
          "canonical(permuted) is ASTeq to and prints like canonical(original), canonical form is a fixed point, "
          "signature order and dataclass field order are preserved. This is the channel through which set/dict iteration "
          "order could reach the stub or the error report. Structural inputs: solver-certified exhaustive walk."),
      "functions_encoded": [
          "pytype/errors/errors.py: ErrorLog.unique_sorted_errors, _sorted_errors, _add, _compare_traceback_strings, Error.get_unique_representation, _position",
          "pytype/pytd/pytd_visitors.py: CanonicalOrderingVisitor (VisitTypeDeclUnit, VisitClass, _PreserveConstantsOrdering, VisitSignature, VisitUnionType), IsNamedTuple",
          "pytype/pytd/pytd_utils.py: CanonicalOrdering, ASTeq, Print; msgspec-generated ordering of pytd nodes"],
      "bounds": {j.name: j.params for j in jobs(tier)},
      "outside": ["PYTHONHASHSEED, process history, loader reuse (need whole analyses)", "pickle bytes (C encoder; see C12)",
                  "typegraph std::set ordering (C++)", "the order in which output.py collects definitions"],
      "rule": "one record per completed path keyed by the error list / the permutation selectors; non-trivial: errors = two errors share a representation, canon = always",
      "assumptions": [
          "traceback alphabet has no antichain larger than MAX_TRACEBACKS, so the cap never drops an input",
          "CrossHair contract-enforcement tracer disabled",
      ],
      "trusted_base": ["CrossHair 0.0.110", "z3"],
  }
