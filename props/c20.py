"""C20 spec."""

from vlib.e1 import Job

M = "harness.c20"


def jobs(tier):
  q = tier == "quick"
  t = 900 if q else 3000
  return [
      Job("merge-module", M, "h_merge", dict(C20_FAMILY=0), shards=47, timeout=t,
          note="module variable (absent / plain / annotated) x 6 stub variable types x 6 function shapes "
               "(plain, partially annotated, star-args, decorated, nested, async) x 5 parameter types x 6 return types"),
      Job("merge-class", M, "h_merge", dict(C20_FAMILY=1, C20_NPT=4 if q else 6), shards=61, timeout=t,
          note="class variable x method / staticmethod / annotated method / classmethod x stub types, "
               "stub with and without the decorator, merged first or after another pair, stub importing from typing / "
               "typing_extensions, program with existing bare-Any annotations"),
  ]


KNOWN = {}


def meta(tier):
  return {
      "explanation": (
          "A (program, stub) pair is generated from selectors and merged by the real merge_pyi.merge_sources. pytype's "
          "own code -- merge_sources, RemoveAnyNeverTransformer, RemoveTrivialTypesTransformer, driven through "
          "libcst's visitor dispatch -- runs traced; libcst's native parser and its ApplyTypeAnnotationsVisitor "
          "codemod are the environment (third-party): pytype's three-line `_merge_csts` wrapper is real code executed "
          "outside the tracer because the codemod cannot run under it. The property's five clauses are evaluated on "
          "the output with CPython's ast: compiles; AST equal to the original's after removing annotations, added "
          "typing imports and TypeVar definitions; existing annotations kept; every inserted annotation is the one "
          "the stub gives; no bare Any/Never inserted as return or variable annotation. All inputs are structural: "
          "the solver's role is the certified exhaustive walk of the bounded pair space."),
      "functions_encoded": [
          "pytype/tools/merge_pyi/merge_pyi.py: merge_sources, RemoveAnyNeverTransformer._is_any_or_never / "
          "leave_FunctionDef / leave_AnnAssign, RemoveTrivialTypesTransformer._is_trivial_type / leave_AnnAssign "
          "(traced); _merge_csts (real, untraced)"],
      "bounds": {j.name: j.params for j in jobs(tier)},
      "outside": [
          "libcst's parser and ApplyTypeAnnotationsVisitor themselves (third-party; run concretely)",
          "stubs inferred by pytype for the program (needs the VM); stubs are generated for the same definitions",
          "merge_files (file I/O, pickled stubs), programs beyond the generated shapes",
          "whether an annotation the stub offers IS inserted (the property only constrains inserted ones)"],
      "rule": "one record per completed path keyed by the decoded selectors; non-trivial = the merge inserted at "
              "least one annotation",
      "assumptions": [
          "CPython ast.parse/compile on the merged text is trusted",
          "_merge_csts runs outside the tracer (CrossHair's shell sets break inspect.getmembers inside libcst)",
          "CrossHair contract-enforcement tracer disabled",
      ],
      "trusted_base": ["CPython ast", "libcst 1.x (environment)", "CrossHair 0.0.110", "z3"],
  }
