#!/bin/bash
# Build the overlay venv used by every check (offline, from the wheelhouse).
# Idempotent; safe to call concurrently (flock).
set -e
cd "$(dirname "$0")"
V=/verif/.venv
exec 9>/verif/.venv.lock
flock 9
if [ -x "$V/bin/python" ] && "$V/bin/python" -c "import crosshair, z3, msgspec" 2>/dev/null; then
  exit 0
fi
rm -rf "$V"
/venv/bin/python -m venv "$V"
SP=$("$V/bin/python" -c "import sysconfig;print(sysconfig.get_paths()['purelib'])")
printf "import site; site.addsitedir('/venv/lib/python3.12/site-packages')\n/repo\n/verif\n" > "$SP/verif_overlay.pth"
PIP_NO_INDEX=1 "$V/bin/pip" install -q --no-index --find-links /opt/veriftools/wheels crosshair-tool z3-solver jsonschema >/dev/null
"$V/bin/python" -c "import crosshair, z3, msgspec, pytype; print('overlay ok', crosshair.__version__)"
