"""C09 obligations for engine E2 (LLVM IR -> z3).  Worker side.

  python -m vlib.e2_c09 <ir_dir> <obligation> <json-args>

Each invocation discharges a batch of queries and prints one JSON line:
  {"obligations": n, "discharged": n, "violations": [...], "queries": ..,
   "solver_s": .., "stubs": [...]}
"""

import json
import sys
import time

import z3

from vlib import e2_interp
from vlib import e2_ir
from vlib.e2_interp import bv

NS = "_ZN25devtools_python_typegraph"
F_CTOR = NS + "20ReachabilityAnalyzerC2Ev"
F_ADD_NODE = NS + "20ReachabilityAnalyzer8add_nodeEv"
F_ADD_CONN = NS + "20ReachabilityAnalyzer14add_connectionEii"
F_IS_REACH = "_ZNK25devtools_python_typegraph20ReachabilityAnalyzer12is_reachableEii"
F_CONNECT = NS + "7CFGNode9ConnectToEPS0_"
F_P_REACH = NS + "7Program12is_reachableEPKNS_7CFGNodeES3_"
F_INVALIDATE = NS + "7Program16InvalidateSolverEv"

_MODS = {}


def modules(ir_dir):
  if ir_dir not in _MODS:
    _MODS[ir_dir] = [e2_ir.Module(open(ir_dir + "/reachable.ll").read()),
                     e2_ir.Module(open(ir_dir + "/typegraph.ll").read())]
  return _MODS[ir_dir]


def new_interp(ir_dir):
  it = e2_interp.Interp(modules(ir_dir))
  it.stubs[F_INVALIDATE] = lambda it_, pc, args: ("ret", None)
  return it


# ------------------------------------------------------------ analyzer states

def words(n):
  return (n + 63) // 64


def make_analyzer(it, n, spare_rows=0, spare_words=0, contents="symbolic"):
  """Builds a ReachabilityAnalyzer with n nodes directly in memory.

  Rows have words(n) words (+ spare capacity); contents are unconstrained
  64-bit words ("symbolic") or the identity matrix ("identity")."""
  s = words(n)
  obj = it.alloc(40, init=0, name="ra")
  adj = it.alloc(24 * (n + spare_rows), init=0, name="adj") if n + spare_rows else 0
  rows, mat = [], []
  for i in range(n):
    r = it.alloc(8 * (s + spare_words), name="row%d" % i)
    rows.append(r)
    for k in range(s):
      if contents == "identity":
        it.mem[r + 8 * k] = bv((1 << (i % 64)) if k == i // 64 else 0)
    mat.append([it.mem[r + 8 * k] for k in range(s)])
    it.mem[adj + 24 * i] = bv(r)
    it.mem[adj + 24 * i + 8] = bv(r + 8 * s)
    it.mem[adj + 24 * i + 16] = bv(r + 8 * (s + spare_words))
  it.mem[obj] = bv(adj)
  it.mem[obj + 8] = bv(adj + 24 * n)
  it.mem[obj + 16] = bv(adj + 24 * (n + spare_rows))
  it.mem[obj + 24] = bv(n)
  it.mem[obj + 32] = bv(s)
  return obj, rows, mat


def read_analyzer(it, obj):
  """(num_nodes, size, [row word lists]) of the analyzer at obj (concrete layout)."""
  n = z3.simplify(it.mem[obj + 24]).as_long()
  s = z3.simplify(it.mem[obj + 32]).as_long()
  adj = z3.simplify(it.mem[obj]).as_long()
  end = z3.simplify(it.mem[obj + 8]).as_long()
  rows = []
  for i in range((end - adj) // 24):
    b = z3.simplify(it.mem[adj + 24 * i]).as_long()
    e = z3.simplify(it.mem[adj + 24 * i + 8]).as_long()
    rows.append([it.mem[b + 8 * k] for k in range((e - b) // 8)])
  return n, s, rows


def padding_zero(mat, n):
  """Inv(n): every bit at a column >= n is zero."""
  conds = []
  if n % 64:
    mask = ((1 << 64) - 1) ^ ((1 << (n % 64)) - 1)
    for row in mat:
      conds.append(row[-1] & bv(mask) == 0)
  return conds


def cbit(row, j):
  return z3.Extract(j % 64, j % 64, row[j // 64]) == 1


def prove(it, negated_goal, extra=(), timeout_s=None):
  """unsat of assumptions + extra + negated goal  <=>  the goal holds."""
  s = z3.Solver()
  if timeout_s:
    s.set("timeout", int(timeout_s * 1000))
  for a in it.assumptions:
    s.add(a)
  for a in extra:
    s.add(a)
  s.add(negated_goal)
  t0 = time.perf_counter()
  r = s.check()
  e2_interp.Stats.queries += 1
  e2_interp.Stats.solver_s += time.perf_counter() - t0
  return r, (s.model() if r == z3.sat else None)


# ------------------------------------------------------------------ obligations

def ob_add_connection(ir_dir, n, pairs):
  """(1)+(3): for concrete (src, dst) and ARBITRARY matrix contents:
  bit'(i,j) <=> bit(i,j) or (bit(i,src) and bit(dst,j)), header unchanged,
  and padding bits stay zero if they were zero."""
  out = []
  for src, dst in pairs:
    it = new_interp(ir_dir)
    obj, rows, mat = make_analyzer(it, n)
    header = [it.mem[obj + 8 * k] for k in range(5)]
    r = it.call(F_ADD_CONN, [bv(obj), bv(src, 32), bv(dst, 32)])
    assert r[0] == "ret"
    bad = []
    for i in range(n):
      hit = cbit(mat[i], src)
      for k in range(words(n)):
        want = z3.If(hit, mat[i][k] | mat[dst][k], mat[i][k])
        bad.append(it.mem[rows[i] + 8 * k] != want)
    for k in range(5):
      bad.append(it.mem[obj + 8 * k] != header[k])
    res, model = prove(it, z3.Or(*bad))
    needs_inv = False
    if res == z3.sat:
      # The contract fails for SOME matrix contents.  Only reflexive,
      # transitively closed matrices are reachable: re-ask for those.  sat =
      # reachable witness; unsat = the contract needs the invariant (a
      # pre-state no history reaches is not a finding).
      res, model = prove(it, z3.Or(*bad), extra=closed_precondition(mat, n), timeout_s=180)
      needs_inv = True
    # padding preserved (follows from the contract; checked on the real result too)
    _, _, after = read_analyzer(it, obj)
    res2, _ = prove(it, z3.Or(*[z3.Not(c) for c in padding_zero(after, n)] or [z3.BoolVal(False)]),
                    extra=padding_zero(mat, n))
    entry = {"ob": "add_connection", "n": n, "src": src, "dst": dst,
             "result": str(res), "padding": str(res2), "needs_invariant": needs_inv}
    if res == z3.sat:
      entry["matrix"] = [[model.eval(w, model_completion=True).as_long() for w in row]
                         for row in mat]
    out.append(entry)
    if res != z3.unsat or res2 != z3.unsat:
      break   # one failing obligation decides the batch
  return out


def closed_precondition(mat, n):
  """Exactly the reachable analyzer states: reflexive, transitively closed,
  zero padding (word-level: bit(i,k) -> row_k subset of row_i)."""
  conds = list(padding_zero(mat, n))
  for i in range(n):
    conds.append(cbit(mat[i], i))
    for k in range(n):
      if k != i:
        sub = z3.And(*[(mat[k][w] & ~mat[i][w]) == 0 for w in range(words(n))])
        conds.append(z3.Implies(cbit(mat[i], k), sub))
  return conds


def ob_add_connection_closed(ir_dir, n, pairs):
  """The add_connection contract restricted to REACHABLE pre-states; a sat
  model is a reachable witness (used to replay a contract counterexample)."""
  out = []
  for src, dst in pairs:
    it = new_interp(ir_dir)
    obj, rows, mat = make_analyzer(it, n)
    it.assumptions += closed_precondition(mat, n)
    it.call(F_ADD_CONN, [bv(obj), bv(src, 32), bv(dst, 32)])
    bad = []
    for i in range(n):
      hit = cbit(mat[i], src)
      for k in range(words(n)):
        bad.append(it.mem[rows[i] + 8 * k] != z3.If(hit, mat[i][k] | mat[dst][k], mat[i][k]))
    res, model = prove(it, z3.Or(*bad))
    entry = {"ob": "add_connection_closed", "n": n, "src": src, "dst": dst, "result": str(res)}
    if res == z3.sat:
      entry["matrix"] = [[model.eval(w, model_completion=True).as_long() for w in row]
                         for row in mat]
    out.append(entry)
  return out


def ob_concrete_history(ir_dir, n, edges):
  """Translator validation: the IR run CONCRETELY (no symbolic values) on an
  edge history; returns the all-pairs Program::is_reachable matrix."""
  it = new_interp(ir_dir)
  cap = max(4, len(edges))
  prog, ra, nodes = make_program(it, n, cap=cap)
  for a, b in edges:
    it.call(F_CONNECT, [bv(nodes[a]), bv(nodes[b])])
  mat = []
  for i in range(n):
    row = []
    for j in range(n):
      q = it.call(F_P_REACH, [bv(prog), bv(nodes[i]), bv(nodes[j])])
      row.append(z3.is_true(z3.simplify(q[1])))
    mat.append(row)
  return [{"ob": "concrete_history", "n": n, "result": "unsat", "matrix": mat}]


def ob_is_reachable(ir_dir, n, pairs):
  """(4): is_reachable(a, b) returns bit(a, b), arbitrary contents.  On
  failure the query is repeated on reachable (closed) matrices so that the
  model can be replayed as an edge history."""
  out = []
  for a, b in pairs:
    it = new_interp(ir_dir)
    obj, rows, mat = make_analyzer(it, n)
    r = it.call(F_IS_REACH, [bv(obj), bv(a, 32), bv(b, 32)])
    res, model = prove(it, r[1] != cbit(mat[a], b))
    needs_inv = False
    if res == z3.sat:
      res, model = prove(it, r[1] != cbit(mat[a], b), extra=closed_precondition(mat, n),
                         timeout_s=180)
      needs_inv = True
    entry = {"ob": "is_reachable", "n": n, "src": a, "dst": b, "result": str(res),
             "needs_invariant": needs_inv}
    if res == z3.sat:
      entry["matrix"] = [[model.eval(w, model_completion=True).as_long() for w in row]
                         for row in mat]
    out.append(entry)
    if res != z3.unsat:
      break
  return out


def ob_add_node(ir_dir, n, layout):
  """(2): add_node from a state satisfying Inv(n) (rows of words(n) words,
  padding bits zero), with spare capacity or reallocating."""
  it = new_interp(ir_dir)
  spare = 1 if layout == "spare" else 0
  obj, rows, mat = make_analyzer(it, n, spare_rows=spare, spare_words=spare)
  it.assumptions += padding_zero(mat, n)
  r = it.call(F_ADD_NODE, [bv(obj)])
  n1, s1, after = read_analyzer(it, obj)
  bad = [r[1] != bv(n, 32)]
  ok_shape = n1 == n + 1 and s1 == words(n + 1) and len(after) == n + 1 and all(
      len(row) == s1 for row in after)
  if ok_shape:
    for i in range(n):
      for k in range(s1):
        old = mat[i][k] if k < words(n) else bv(0)
        bad.append(after[i][k] != old)     # old bits preserved, column n clear (Inv)
    for k in range(s1):
      bad.append(after[n][k] != bv((1 << (n % 64)) if k == n // 64 else 0))
    bad += [z3.Not(c) for c in padding_zero(after, n + 1)]
  res, _ = prove(it, z3.Or(*bad)) if ok_shape else (z3.sat, None)
  return [{"ob": "add_node", "n": n, "layout": layout, "shape_ok": ok_shape,
           "result": str(res), "stubs": sorted(set(it.stub_log))}]


def ob_closure_lemma(n):
  """(6) model level: applying the update rule of (1) to the reflexive
  transitive closure of E yields the closure of E + {e}."""
  E = [[z3.Bool("e_%d_%d" % (i, j)) for j in range(n)] for i in range(n)]
  src, dst = z3.Int("src"), z3.Int("dst")

  def closure(rel):
    c = [[z3.Or(rel[i][j], i == j) for j in range(n)] for i in range(n)]
    for k in range(n):
      c = [[z3.Or(c[i][j], z3.And(c[i][k], c[k][j])) for j in range(n)] for i in range(n)]
    return c

  c0 = closure(E)
  # analyzer orientation: add_connection(src, dst) makes every i that reaches src reach what dst reaches
  E2 = [[z3.Or(E[i][j], z3.And(src == i, dst == j)) for j in range(n)] for i in range(n)]
  c2 = closure(E2)

  def pick(mat_row_fn, idx):
    return z3.Or(*[z3.And(idx == k, mat_row_fn(k)) for k in range(n)])

  bad = []
  for i in range(n):
    for j in range(n):
      upd = z3.Or(c0[i][j], z3.And(pick(lambda k: c0[i][k], src), pick(lambda k: c0[k][j], dst)))
      bad.append(upd != c2[i][j])
  s = z3.Solver()
  s.add(src >= 0, src < n, dst >= 0, dst < n, z3.Or(*bad))
  t0 = time.perf_counter()
  r = s.check()
  e2_interp.Stats.queries += 1
  e2_interp.Stats.solver_s += time.perf_counter() - t0
  return [{"ob": "closure_lemma", "n": n, "result": str(r)}]


# ------------------------------------------------- program-level bounded histories

def make_program(it, n, cap):
  """n CFGNode objects (ids 0..n-1, empty incoming_/outgoing_ with capacity
  `cap`) sharing one ReachabilityAnalyzer that is built by interpreting the
  real constructor and add_node n times, and a Program pointing to it."""
  tg = it.mods[1]
  CN = e2_ir.NamedT('%"class.devtools_python_typegraph::CFGNode"')
  PR = e2_ir.NamedT('%"class.devtools_python_typegraph::Program"')
  # offsets from the struct types of the emitted module (field order as in typegraph.h:
  # CFGNode {name_, incoming_, outgoing_, id_, bindings_, program_, condition_,
  # backward_reachability_}; Program {entrypoint_, next_variable_id_, next_binding_id_,
  # backward_reachability_, ...})
  off_in, off_out = tg.field_offset(CN, 1)[0], tg.field_offset(CN, 2)[0]
  off_id, off_prog, off_ra = (tg.field_offset(CN, 3)[0], tg.field_offset(CN, 5)[0],
                              tg.field_offset(CN, 7)[0])
  size_node, size_prog = tg.size_align(CN)[0], tg.size_align(PR)[0]
  poff_ra = tg.field_offset(PR, 3)[0]
  ra = it.alloc(40, name="ra")
  it.call(F_CTOR, [bv(ra)])
  for _ in range(n):
    it.call(F_ADD_NODE, [bv(ra)])
  prog = it.alloc(size_prog, init=0, name="prog")
  it.mem[prog + poff_ra] = bv(ra)     # unique_ptr<ReachabilityAnalyzer> backward_reachability_
  nodes = []
  for i in range(n):
    nd = it.alloc(size_node, init=0, name="node%d" % i)
    for off in (off_in, off_out):     # incoming_, outgoing_
      buf = it.alloc(8 * cap, init=0, name="vec")
      it.mem[nd + off] = bv(buf)
      it.mem[nd + off + 8] = bv(buf)
      it.mem[nd + off + 16] = bv(buf + 8 * cap)
    it.mem[nd + off_id] = bv(i)       # id_
    it.mem[nd + off_prog] = bv(prog)  # program_
    it.mem[nd + off_ra] = bv(ra)      # backward_reachability_
    nodes.append(nd)
  return prog, ra, nodes


def ob_history(ir_dir, n, k):
  """(7)+(5): from n freshly created nodes, k ConnectTo calls with SYMBOLIC
  endpoints through the real ConnectTo -> add_connection; after every step
  Program::is_reachable(a, b) for every pair equals the reflexive transitive
  closure of the edges inserted so far (self-edges and duplicates included)."""
  it = new_interp(ir_dir)
  prog, ra, nodes = make_program(it, n, cap=k)
  ends = []
  truth = [[(i == j) for j in range(n)] for i in range(n)]   # z3 Bools / python bools

  def sel_node(idx):
    v = bv(nodes[0])
    for i in range(1, n):
      v = z3.If(idx == i, bv(nodes[i]), v)
    return v

  out = []
  for step in range(k):
    a = z3.BitVec("a%d" % step, 8)
    b = z3.BitVec("b%d" % step, 8)
    it.assumptions += [z3.ULT(a, n), z3.ULT(b, n)]
    ends.append((a, b))
    r = it.call(F_CONNECT, [sel_node(a), sel_node(b)])
    assert r[0] == "ret", r
    # truth: add edge a->b and close (n rounds of Warshall on Bool matrix)
    t = [[z3.Or(truth[i][j], z3.And(a == i, b == j)) for j in range(n)] for i in range(n)]
    for m_ in range(n):
      t = [[z3.Or(t[i][j], z3.And(t[i][m_], t[m_][j])) for j in range(n)] for i in range(n)]
    truth = t
    bad = []
    for i in range(n):
      for j in range(n):
        mem_snapshot = dict(it.mem)
        q = it.call(F_P_REACH, [bv(prog), bv(nodes[i]), bv(nodes[j])])
        it.mem = mem_snapshot
        bad.append(q[1] != truth[i][j])
    res, model = prove(it, z3.Or(*bad))
    entry = {"ob": "history", "n": n, "step": step + 1, "result": str(res)}
    if res == z3.sat:
      entry["edges"] = [(model.eval(x, model_completion=True).as_long(),
                         model.eval(y, model_completion=True).as_long()) for x, y in ends]
    out.append(entry)
    if res != z3.unsat:
      break
  return out


def main():
  ir_dir, ob = sys.argv[1], sys.argv[2]
  args = json.loads(sys.argv[3])
  t0 = time.time()
  res = {"ob": ob, "args": args}
  try:
    if ob == "add_connection":
      res["results"] = ob_add_connection(ir_dir, args["n"], args["pairs"])
    elif ob == "is_reachable":
      res["results"] = ob_is_reachable(ir_dir, args["n"], args["pairs"])
    elif ob == "add_node":
      res["results"] = ob_add_node(ir_dir, args["n"], args["layout"])
    elif ob == "closure_lemma":
      res["results"] = ob_closure_lemma(args["n"])
    elif ob == "history":
      res["results"] = ob_history(ir_dir, args["n"], args["k"])
    elif ob == "add_connection_closed":
      res["results"] = ob_add_connection_closed(ir_dir, args["n"], args["pairs"])
    elif ob == "concrete_history":
      res["results"] = ob_concrete_history(ir_dir, args["n"], args["edges"])
    else:
      raise ValueError(ob)
  except (e2_ir.Unsupported, e2_interp.OutOfBounds) as e:
    res["error"] = "%s: %s" % (type(e).__name__, e)
  res["queries"] = e2_interp.Stats.queries
  res["solver_s"] = round(e2_interp.Stats.solver_s, 3)
  res["wall_s"] = round(time.time() - t0, 2)
  print("\n" + json.dumps(res))


if __name__ == "__main__":
  main()
