"""Bounded symbolic interpreter for LLVM IR over z3 bit-vectors (engine E2).

* registers hold z3 BitVec values (i1 is a z3 Bool);
* memory is a dict from concrete 8-byte-aligned addresses to 64-bit values;
  a load/store through a symbolic address enumerates the feasible concrete
  addresses with the solver and becomes an if-then-else chain; every access
  must hit an allocated cell (otherwise OutOfBounds is raised);
* a branch on a symbolic condition executes both sides up to the immediate
  post-dominator under a path guard and merges registers/memory with ite;
* loops run by their (concrete) trip counts; a loop whose exit condition is
  not decided by the path condition within the unrolling bound raises
  Unsupported -- this is the unwinding assertion.
Stubs: operator new = fresh block of unconstrained words, operator delete =
no-op, llvm.memset/memcpy/memmove word-wise with concrete length,
llvm.assume adds an assumption, throwing helpers make the path infeasible,
user-supplied stubs for named functions.
"""

import re
import time

import z3

from vlib import e2_ir
from vlib.e2_ir import Unsupported


class OutOfBounds(Exception):
  pass


def bv(v, bits=64):
  return z3.BitVecVal(v, bits)


def is_conc(e):
  return z3.is_bv_value(e) or z3.is_true(e) or z3.is_false(e)


class Stats:
  queries = 0
  solver_s = 0.0


class Interp:

  def __init__(self, modules, max_steps=2_000_000, max_addrs=600):
    # Several modules (one per translation unit): type names are per module,
    # functions are looked up across modules.
    self.mods = modules if isinstance(modules, (list, tuple)) else [modules]
    self.m = self.mods[0]
    self.mem = {}
    self.heap = 0x100000
    self.assumptions = []      # global assumptions (pre-state constraints, assumes)
    self.stubs = {}
    self.stub_log = []
    self.max_steps = max_steps
    self.max_addrs = max_addrs
    self.steps = 0
    self.solver = z3.Solver()
    self._ipdom = {}
    self.calls = []            # log of (function, args) for stubbed/observed calls

  # ------------------------------------------------------------ solver
  def check(self, *extra):
    t0 = time.perf_counter()
    self.solver.push()
    for a in self.assumptions:
      self.solver.add(a)
    for e in extra:
      self.solver.add(e)
    r = self.solver.check()
    self.solver.pop()
    Stats.queries += 1
    Stats.solver_s += time.perf_counter() - t0
    if r == z3.unknown:
      raise Unsupported("solver returned unknown")
    return r

  def must(self, pc, cond):
    """Is cond implied by assumptions + pc? / is it refuted? -> True/False/None"""
    c = z3.simplify(cond)
    if z3.is_true(c):
      return True
    if z3.is_false(c):
      return False
    sat_t = self.check(*pc, c) == z3.sat
    sat_f = self.check(*pc, z3.Not(c)) == z3.sat
    if sat_t and not sat_f:
      return True
    if sat_f and not sat_t:
      return False
    if not sat_t and not sat_f:
      return "dead"
    return None

  # ------------------------------------------------------------ memory
  def alloc(self, nbytes, init=None, name="h"):
    nbytes = (nbytes + 7) // 8 * 8
    base = self.heap
    self.heap += nbytes + 64     # red zone between blocks
    for k in range(nbytes // 8):
      self.mem[base + 8 * k] = (z3.BitVec("%s_%x_%d" % (name, base, k), 64)
                                if init is None else bv(init))
    return base

  def addresses(self, pc, addr):
    a = z3.simplify(addr)
    if z3.is_bv_value(a):
      return [(a.as_long(), None)]
    out = []
    t0 = time.perf_counter()
    self.solver.push()
    for x in self.assumptions:
      self.solver.add(x)
    for x in pc:
      self.solver.add(x)
    while True:
      r = self.solver.check()
      Stats.queries += 1
      if r == z3.unknown:
        self.solver.pop()
        raise Unsupported("solver unknown while enumerating addresses")
      if r == z3.unsat:
        break
      v = self.solver.model().eval(a, model_completion=True).as_long()
      out.append((v, a == bv(v)))
      self.solver.add(a != bv(v))
      if len(out) > self.max_addrs:
        self.solver.pop()
        raise Unsupported("more than %d feasible addresses" % self.max_addrs)
    self.solver.pop()
    Stats.solver_s += time.perf_counter() - t0
    return out

  def load64(self, pc, addr):
    cands = self.addresses(pc, addr)
    if not cands:
      return bv(0)   # dead path
    val = None
    for a, cond in reversed(cands):
      if a % 8 or a not in self.mem:
        raise OutOfBounds("load from unallocated address 0x%x" % a)
      val = self.mem[a] if val is None else z3.If(cond, self.mem[a], val)
    return val

  def store64(self, pc, guard, addr, value):
    cands = self.addresses(pc, addr)
    for a, cond in cands:
      if a % 8 or a not in self.mem:
        raise OutOfBounds("store to unallocated address 0x%x" % a)
      g = guard
      if cond is not None:
        g = cond if g is None else z3.And(g, cond)
      self.mem[a] = value if g is None else z3.If(g, value, self.mem[a])

  # ------------------------------------------------------------ values
  def operand(self, frame, ty, tok):
    tok = tok.strip()
    t = self.m.resolve(ty)
    bits = t.bits if isinstance(t, e2_ir.IntT) else 64
    if tok.startswith("%"):
      if tok not in frame:
        raise Unsupported("undefined register %s" % tok)
      return frame[tok]
    if tok in ("null", "zeroinitializer", "undef", "poison"):
      return z3.BoolVal(False) if bits == 1 else bv(0, bits)
    if tok == "true":
      return z3.BoolVal(True)
    if tok == "false":
      return z3.BoolVal(False)
    if re.fullmatch(r"-?\d+", tok):
      return z3.BoolVal(bool(int(tok))) if bits == 1 else bv(int(tok), bits)
    if tok.startswith("@"):
      return bv(0xdead0000)    # address of a global (only passed to throwing stubs)
    if tok.startswith("getelementptr"):
      return bv(0xdead0000)
    raise Unsupported("operand %r" % tok)

  # ------------------------------------------------------------ CFG helpers
  def succs(self, fn, label):
    last = fn.blocks[label][-1]
    if last.startswith("br "):
      return [self._lab(fn, x) for x in re.findall(r"label (%[\w.$-]+)", last)]
    if last.startswith("switch "):
      return [self._lab(fn, x) for x in re.findall(r"label (%[\w.$-]+)", last)]
    return []

  def _lab(self, fn, lab):
    return lab

  def ipdoms(self, fn):
    if id(fn) in self._ipdom:
      return self._ipdom[id(fn)]
    labels = fn.order
    EXIT = "<exit>"
    succ = {l: (self.succs(fn, l) or [EXIT]) for l in labels}
    succ[EXIT] = []
    allset = set(labels) | {EXIT}
    pdom = {l: set(allset) for l in labels}
    pdom[EXIT] = {EXIT}
    changed = True
    while changed:
      changed = False
      for l in labels:
        new = set.intersection(*(pdom[s] for s in succ[l])) | {l}
        if new != pdom[l]:
          pdom[l] = new
          changed = True
    ip = {}
    for l in labels:
      cands = pdom[l] - {l}
      # the immediate post-dominator is the one post-dominated by all others
      best = None
      for c in cands:
        if all(o in pdom[c] for o in cands):
          best = c
      ip[l] = best
    self._ipdom[id(fn)] = ip
    return ip

  # ------------------------------------------------------------ execution
  def call(self, name, args, pc=()):
    if name in self.stubs:
      self.stub_log.append(name)
      return self.stubs[name](self, list(pc), args)
    mod = next((m for m in self.mods if name in m.functions), None)
    if mod is None:
      raise Unsupported("call to undefined function %s" % name)
    fn = mod.functions[name]
    frame = {}
    for (pname, pty), a in zip(fn.params, args):
      frame[pname] = a
    saved, self.m = self.m, mod
    try:
      return self.run(fn, frame, fn.order[0], None, list(pc), None)
    finally:
      self.m = saved

  def run(self, fn, frame, label, prev, pc, stop):
    """Executes from `label` until ret (returns ('ret', value)), until the path
    dies (('dead', None)) or until control reaches block `stop`
    (('stop', predecessor label))."""
    skip_phis = False
    while True:
      if label == stop:
        return ("stop", prev)
      insts = fn.blocks[label]
      k = 0
      while k < len(insts) and " = phi " in insts[k]:
        k += 1
      if k and not skip_phis:
        self.resolve_phis(fn, frame, label, [(None, prev, frame)])
      skip_phis = False
      nxt = None
      for inst in insts[k:]:
        self.steps += 1
        if self.steps > self.max_steps:
          raise Unsupported("step bound exceeded (unwinding assertion)")
        r = self.step(fn, frame, label, inst, pc)
        if r is None:
          continue
        if r[0] in ("ret", "dead"):
          return r
        if r[0] == "goto":
          nxt = r[1]
          break
        _, cond, la, lb = r
        d = self.must(pc, cond)
        if d == "dead":
          return ("dead", None)
        if d is True:
          nxt = la
          break
        if d is False:
          nxt = lb
          break
        join = self.ipdoms(fn)[label]
        join = None if join == "<exit>" else join
        res = self.merge_branch(fn, frame, label, cond, la, lb, pc, join)
        if res[0] in ("ret", "dead"):
          return res
        # both sides reached `join`; its phis are already resolved
        nxt = join
        skip_phis = True
        label = None   # the predecessor is not a single block any more
        break
      else:
        raise Unsupported("block %s fell through" % label)
      prev, label = label, nxt

  def merge_branch(self, fn, frame, label, cond, la, lb, pc, join):
    """Executes both sides of a symbolic branch up to `join` and merges."""
    mem0 = dict(self.mem)
    sides = []
    for c, target in ((cond, la), (z3.Not(cond), lb)):
      self.mem = dict(mem0)
      fr = dict(frame)
      res = self.run(fn, fr, target, label, pc + [c], join)
      sides.append((c, res, fr, self.mem))
    live = [s for s in sides if s[1][0] != "dead"]
    if not live:
      return ("dead", None)
    if len(live) == 1:
      c, res, fr, mem = live[0]
      # the other side cannot happen (throwing helper / contradiction): assume it away
      self.assumptions.append(z3.Implies(z3.And(*pc) if pc else z3.BoolVal(True), c))
      self.mem = mem
      frame.clear()
      frame.update(fr)
      if res[0] == "ret":
        return res
      self.resolve_phis(fn, frame, join, [(None, res[1], fr)])
      return ("stop", res[1])
    (ca, ra, fa, ma), (cb, rb, fb, mb) = live
    if ra[0] != rb[0]:
      raise Unsupported("one side of a symbolic branch returns, the other does not")
    # merge memory
    merged = {}
    for a in set(ma) | set(mb):
      va, vb = ma.get(a), mb.get(a)
      if va is None or vb is None:
        merged[a] = va if vb is None else vb
      elif va is vb or va.eq(vb):
        merged[a] = va
      else:
        merged[a] = z3.If(ca, va, vb)
    self.mem = merged
    if ra[0] == "ret":
      va, vb = ra[1], rb[1]
      if va is None:
        return ("ret", None)
      return ("ret", va if va.eq(vb) else z3.If(ca, va, vb))
    # merge registers defined on both sides (SSA: needed only through phis)
    for r in set(fa) | set(fb):
      x, y = fa.get(r), fb.get(r)
      if x is None or y is None:
        frame[r] = x if y is None else y
      elif x.eq(y):
        frame[r] = x
      else:
        frame[r] = z3.If(ca, x, y)
    self.resolve_phis(fn, frame, join, [(ca, ra[1], fa), (cb, rb[1], fb)])
    return ("stop", None)

  def resolve_phis(self, fn, frame, join, preds):
    insts = fn.blocks[join]
    vals = {}
    for inst in insts:
      if " = phi " not in inst:
        break
      dst, rest = inst.split(" = phi ", 1)
      tp = e2_ir.TypeParser(rest)
      ty = tp.parse()
      pairs = dict((lab, v) for v, lab in re.findall(
          r"\[\s*([^,\]]+),\s*(%[\w.$-]+)\s*\]", rest[tp.p:]))
      cur = None
      for cond, prev, fr in reversed(preds):
        if prev not in pairs:
          raise Unsupported("phi %s has no entry for %s" % (dst, prev))
        v = self.operand(fr, ty, pairs[prev])
        cur = v if cur is None else z3.If(cond, v, cur)
      vals[dst.strip()] = cur
    frame.update(vals)

  # ------------------------------------------------------------ instructions
  def step(self, fn, frame, label, inst, pc):
    m = re.match(r"^(%[\w.$-]+) = (.*)$", inst)
    dst, body = (m.group(1), m.group(2)) if m else (None, inst)
    op = body.split(" ", 1)[0]
    if op == "br":
      mm = re.match(r"br i1 ([^,]+), label (%[\w.$-]+), label (%[\w.$-]+)", body)
      if mm:
        return ("branch", self.operand(frame, e2_ir.IntT(1), mm.group(1)),
                mm.group(2), mm.group(3))
      return ("goto", re.match(r"br label (%[\w.$-]+)", body).group(1))
    if op == "ret":
      if body.strip() == "ret void":
        return ("ret", None)
      tp = e2_ir.TypeParser(body[4:])
      ty = tp.parse()
      return ("ret", self.operand(frame, ty, body[4 + tp.p:]))
    if op == "unreachable":
      return ("dead", None)
    if op in ("add", "sub", "mul", "and", "or", "xor", "shl", "lshr", "ashr",
              "sdiv", "udiv", "srem", "urem"):
      rest = re.sub(r"^(nuw |nsw |exact )+", "", body[len(op) + 1:])
      tp = e2_ir.TypeParser(rest)
      ty = tp.parse()
      a, b = rest[tp.p:].split(",")
      x, y = self.operand(frame, ty, a), self.operand(frame, ty, b)
      frame[dst] = z3.simplify(self.binop(op, x, y))
      return None
    if op == "icmp":
      mm = re.match(r"icmp (\w+) (.*)$", body)
      pred, rest = mm.group(1), mm.group(2)
      tp = e2_ir.TypeParser(rest)
      ty = tp.parse()
      a, b = rest[tp.p:].split(",")
      x, y = self.operand(frame, ty, a), self.operand(frame, ty, b)
      f = {"eq": lambda: x == y, "ne": lambda: x != y, "ugt": lambda: z3.UGT(x, y),
           "uge": lambda: z3.UGE(x, y), "ult": lambda: z3.ULT(x, y),
           "ule": lambda: z3.ULE(x, y), "sgt": lambda: x > y, "sge": lambda: x >= y,
           "slt": lambda: x < y, "sle": lambda: x <= y}[pred]
      frame[dst] = z3.simplify(f())
      return None
    if op == "select":
      parts = e2_ir._split_top(body[len("select "):])  # pylint: disable=protected-access
      c = self.operand(frame, e2_ir.IntT(1), parts[0].split(" ", 1)[1])
      tp = e2_ir.TypeParser(parts[1].strip())
      ty = tp.parse()
      x = self.operand(frame, ty, parts[1].strip()[tp.p:])
      tp2 = e2_ir.TypeParser(parts[2].strip())
      tp2.parse()
      y = self.operand(frame, ty, parts[2].strip()[tp2.p:])
      frame[dst] = z3.simplify(z3.If(c, x, y))
      return None
    if op in ("zext", "sext", "trunc", "ptrtoint", "inttoptr", "bitcast"):
      mm = re.match(r"\w+ (.*) to (.*)$", body)
      tp = e2_ir.TypeParser(mm.group(1))
      src_ty = tp.parse()
      x = self.operand(frame, src_ty, mm.group(1)[tp.p:])
      dst_ty = self.m.resolve(e2_ir.TypeParser(mm.group(2)).parse())
      sb = 1 if z3.is_bool(x) else x.size()
      db = dst_ty.bits if isinstance(dst_ty, e2_ir.IntT) else 64
      if z3.is_bool(x):
        x = z3.If(x, bv(1, 1), bv(0, 1))
      if op == "zext":
        y = z3.ZeroExt(db - sb, x)
      elif op == "sext":
        y = z3.SignExt(db - sb, x)
      elif op == "trunc":
        y = z3.Extract(db - 1, 0, x)
      else:
        y = x
      if db == 1:
        y = y == bv(1, 1)
      frame[dst] = z3.simplify(y)
      return None
    if op == "getelementptr":
      frame[dst] = z3.simplify(self.gep(frame, body))
      return None
    if op == "load":
      mm = re.match(r"load (.*)$", body)
      parts = e2_ir._split_top(mm.group(1))  # pylint: disable=protected-access
      ty = self.m.resolve(e2_ir.TypeParser(parts[0]).parse())
      tp = e2_ir.TypeParser(parts[1].strip())
      pty = tp.parse()
      addr = self.operand(frame, pty, parts[1].strip()[tp.p:])
      size, _ = self.m.size_align(ty)
      if size == 8:
        frame[dst] = self.load64(pc, addr)
      elif size == 4:
        word = self.load64(pc, addr & bv(~7 & (2**64 - 1)))
        hi = z3.Extract(2, 2, addr) == bv(1, 1)
        frame[dst] = z3.simplify(z3.If(hi, z3.Extract(63, 32, word), z3.Extract(31, 0, word)))
      else:
        raise Unsupported("load of size %d" % size)
      return None
    if op == "store":
      parts = e2_ir._split_top(body[len("store "):])  # pylint: disable=protected-access
      tp = e2_ir.TypeParser(parts[0].strip())
      ty = tp.parse()
      val = self.operand(frame, ty, parts[0].strip()[tp.p:])
      tp2 = e2_ir.TypeParser(parts[1].strip())
      pty = tp2.parse()
      addr = self.operand(frame, pty, parts[1].strip()[tp2.p:])
      size, _ = self.m.size_align(ty)
      if size == 8:
        self.store64(pc, None, addr, val)
      elif size == 4:
        base = addr & bv(~7 & (2**64 - 1))
        word = self.load64(pc, base)
        hi = z3.Extract(2, 2, addr) == bv(1, 1)
        new = z3.If(hi, z3.Concat(val, z3.Extract(31, 0, word)),
                    z3.Concat(z3.Extract(63, 32, word), val))
        self.store64(pc, None, base, z3.simplify(new))
      else:
        raise Unsupported("store of size %d" % size)
      return None
    if op == "alloca":
      tp = e2_ir.TypeParser(body[len("alloca "):])
      ty = tp.parse()
      size, _ = self.m.size_align(ty)
      frame[dst] = bv(self.alloc(size, name="stack"))
      return None
    if op in ("call", "tail", "notail", "musttail"):
      return self.do_call(frame, dst, body, pc)
    if op == "freeze":
      tp = e2_ir.TypeParser(body[len("freeze "):])
      ty = tp.parse()
      frame[dst] = self.operand(frame, ty, body[len("freeze ") + tp.p:])
      return None
    raise Unsupported("instruction %r" % inst)

  def binop(self, op, x, y):
    if z3.is_bool(x):
      return {"and": z3.And, "or": z3.Or, "xor": z3.Xor}[op](x, y)
    if op == "add":
      return x + y
    if op == "sub":
      return x - y
    if op == "mul":
      return x * y
    if op == "and":
      return x & y
    if op == "or":
      return x | y
    if op == "xor":
      return x ^ y
    if op == "shl":
      return x << y
    if op == "lshr":
      return z3.LShR(x, y)
    if op == "ashr":
      return x >> y
    if op == "udiv":
      return z3.UDiv(x, y)
    if op == "urem":
      return z3.URem(x, y)
    if op == "srem":
      return z3.SRem(x, y)
    if op == "sdiv":
      # C semantics: truncation towards zero; z3's bvsdiv has exactly that
      return x / y
    raise Unsupported(op)

  def gep(self, frame, body):
    rest = body[len("getelementptr "):]
    rest = re.sub(r"^inbounds ", "", rest)
    parts = e2_ir._split_top(rest)  # pylint: disable=protected-access
    base_ty = e2_ir.TypeParser(parts[0].strip()).parse()
    tp = e2_ir.TypeParser(parts[1].strip())
    pty = tp.parse()
    addr = self.operand(frame, pty, parts[1].strip()[tp.p:])
    cur = base_ty
    for n, p in enumerate(parts[2:]):
      p = p.strip()
      tpi = e2_ir.TypeParser(p)
      ity = tpi.parse()
      idx = self.operand(frame, ity, p[tpi.p:])
      if n == 0:
        size, _ = self.m.size_align(cur)
        addr = addr + z3.SignExt(64 - idx.size(), idx) * bv(size) if idx.size() < 64 \
            else addr + idx * bv(size)
        continue
      t = self.m.resolve(cur)
      if isinstance(t, e2_ir.StructT):
        idx = z3.simplify(idx)
        if not z3.is_bv_value(idx):
          raise Unsupported("symbolic struct index")
        off, cur = self.m.field_offset(t, idx.as_long())
        addr = addr + bv(off)
      elif isinstance(t, e2_ir.ArrayT):
        size, _ = self.m.size_align(t.elem)
        addr = addr + (z3.SignExt(64 - idx.size(), idx) if idx.size() < 64 else idx) * bv(size)
        cur = t.elem
      else:
        raise Unsupported("gep into %r" % (t,))
    return addr

  def do_call(self, frame, dst, body, pc):
    mm = re.search(r"@([\w.$]+)\((.*)\)", body)
    if not mm:
      raise Unsupported("indirect call: %s" % body)
    name = mm.group(1)
    raw_args = e2_ir._split_top(mm.group(2))  # pylint: disable=protected-access
    args = []
    for a in raw_args:
      a = a.strip()
      if a.startswith("metadata"):
        args.append(None)
        continue
      tp = e2_ir.TypeParser(a)
      ty = tp.parse()
      tok = re.sub(r"^((noundef|nonnull|nocapture|readonly|writeonly|immarg|noalias|signext|zeroext|"
                   r"align \d+|dereferenceable\(\d+\)|dereferenceable_or_null\(\d+\))\s+)*", "",
                   a[tp.p:].strip())
      args.append(self.operand(frame, ty, tok))
    if name.startswith("llvm.lifetime") or name.startswith("llvm.experimental.noalias") \
        or name.startswith("llvm.dbg"):
      return None
    if name.startswith("llvm.assume"):
      self.assumptions.append(z3.Implies(z3.And(*pc) if pc else z3.BoolVal(True), args[0]))
      return None
    if name.startswith("llvm.memset"):
      n = z3.simplify(args[2])
      val = z3.simplify(args[1])
      if not z3.is_bv_value(n) or not z3.is_bv_value(val) or n.as_long() % 8:
        raise Unsupported("memset with non-concrete or unaligned length")
      byte = val.as_long() & 0xff
      word = int.from_bytes(bytes([byte]) * 8, "little")
      for k in range(n.as_long() // 8):
        self.store64(pc, None, args[0] + bv(8 * k), bv(word))
      return None
    if name.startswith("llvm.memmove") or name.startswith("llvm.memcpy"):
      n = z3.simplify(args[2])
      if not z3.is_bv_value(n) or n.as_long() % 8:
        raise Unsupported("memmove with non-concrete or unaligned length")
      vals = [self.load64(pc, args[1] + bv(8 * k)) for k in range(n.as_long() // 8)]
      for k, v in enumerate(vals):
        self.store64(pc, None, args[0] + bv(8 * k), v)
      return None
    if name == "_Znwm":
      n = z3.simplify(args[0])
      if not z3.is_bv_value(n):
        raise Unsupported("operator new with symbolic size")
      frame[dst] = bv(self.alloc(n.as_long(), name="new"))
      self.stub_log.append("operator new")
      return None
    if name == "_ZdlPv" or name == "_ZdlPvm":
      self.stub_log.append("operator delete")
      return None
    if name.startswith("_ZSt") and "throw" in name:
      self.stub_log.append(name)
      return ("dead", None)
    r = self.call(name, args, pc)
    if r[0] == "dead":
      return ("dead", None)
    if dst is not None:
      frame[dst] = r[1]
    return None
