"""Imported first by every harness module.

Makes /repo importable, attaches the freshly built cfg extension (if the
check built one) and provides the small helpers harness bodies use.
"""

import os
import sys

REPO = os.environ.get("VERIF_REPO", "/repo")
if REPO not in sys.path:
  sys.path.insert(0, REPO)

_cfg_dir = os.environ.get("VERIF_CFG_DIR")
if _cfg_dir:
  import pytype.typegraph  # pylint: disable=g-import-not-at-top
  if _cfg_dir not in pytype.typegraph.__path__:
    pytype.typegraph.__path__.append(_cfg_dir)

# Shard selection: every harness has `pre: shard_ok(<leading selector expr>)`.
SHARD_K = int(os.environ.get("VERIF_SHARD_K", "1"))
SHARD_R = int(os.environ.get("VERIF_SHARD_R", "0"))


def shard_ok(x):
  return x % SHARD_K == SHARD_R


_rec_fd = None
_rec_path = os.environ.get("VERIF_RECORD")


def record(key):
  """Appends one line per completed path to the side file (untraced).

  `key` must already be concrete (built from decoded structure); it is used to
  count evaluations and distinct decoded inputs.
  """
  global _rec_fd
  if not _rec_path:
    return
  try:
    from crosshair.tracers import NoTracing  # pylint: disable=g-import-not-at-top
  except ImportError:
    NoTracing = None
  if NoTracing is None:
    _write(key)
    return
  with NoTracing():
    _write(key)


def _write(key):
  global _rec_fd
  if _rec_fd is None:
    _rec_fd = os.open(_rec_path, os.O_WRONLY | os.O_APPEND | os.O_CREAT, 0o644)
  if not isinstance(key, str):
    key = repr(key)
  os.write(_rec_fd, (key.replace("\n", "\\n") + "\n").encode())


TIER = os.environ.get("VERIF_TIER", "quick")
if TIER not in ("quick", "thorough"):
  TIER = "quick"
TWIN = os.environ.get("VERIF_TWIN") == "1"


def param(name, quick, thorough):
  """A bound: per tier, overridable with VERIF_PARAM_<name> (recorded in evidence)."""
  v = os.environ.get("VERIF_PARAM_" + name)
  if v is not None:
    return int(v)
  return quick if TIER == "quick" else thorough


def check_post(ok):
  """Postcondition of every harness; the reachability twin asserts False."""
  if TWIN:
    return False
  return ok is True or (ok is not False and bool(ok))


def conc(x, n):
  """Decodes a symbolic selector into a concrete int in [0, n).

  Each comparison is a solver-decided fork; on every resulting path the
  returned value is an ordinary Python int.  Values outside [0, n) cannot occur
  when the precondition bounds the selector; the final return keeps the
  function total.
  """
  for v in range(n - 1):
    if x == v:
      return v
  return n - 1


def inrange(x, lo, hi):
  """lo <= x < hi as one solver term (no fork)."""
  return all([lo <= x, x < hi])


def all_inrange(xs, lo, hi):
  return all([inrange(x, lo, hi) for x in xs])


def gate(*vals):
  """Shard membership decided in the harness body from already-decoded
  (concrete) leading choices; every shard walks the few leading forks, only
  the owning shard continues.  Returns True when this shard owns the input."""
  # hash of a tuple of ints is deterministic (no hash seed involved) and mixes well
  return hash(tuple(int(v) for v in vals)) % SHARD_K == SHARD_R


def untraced(fn):
  """Runs a helper that only touches CONCRETE data outside CrossHair's tracer
  (pure bookkeeping: invariants over decoded objects, reprs, snapshots)."""
  import functools  # pylint: disable=g-import-not-at-top
  try:
    from crosshair.tracers import NoTracing  # pylint: disable=g-import-not-at-top
  except ImportError:
    return fn

  @functools.wraps(fn)
  def wrapper(*a, **kw):
    with NoTracing():
      return fn(*a, **kw)
  return wrapper


_KF_ONLY = os.environ.get("VERIF_KF_ONLY") or None
_KF_EXCLUDE = set(x for x in os.environ.get("VERIF_KF_EXCLUDE", "").split(",") if x)


def kf_skip(cls):
  """Known-finding classes (known_findings.txt): the main run skips inputs of
  a recorded class (so that anything it finds is new); the directed run
  (VERIF_KF_ONLY=<key>) looks at that class only."""
  if _KF_ONLY:
    return cls != _KF_ONLY
  return cls in _KF_EXCLUDE
