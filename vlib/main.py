import os
import sys

from vlib import env


def main():
  pid = sys.argv[1].upper()
  tier = sys.argv[2] if len(sys.argv) > 2 else os.environ.get("VERIF_TIER", "quick")
  if tier not in ("quick", "thorough"):
    tier = "quick"
  if pid == "C09":
    from vlib import e2_driver  # pylint: disable=g-import-not-at-top
    rc = e2_driver.main(tier)
  else:
    from vlib import driver  # pylint: disable=g-import-not-at-top
    rc = driver.main(pid, tier)
  sys.stdout.flush()
  sys.exit(rc)


if __name__ == "__main__":
  main()
