"""Environment for the checks: overlay venv and the cfg extension.

Everything is rebuilt from /repo's current working tree on every run; nothing
is written into /repo.  Scratch directories live under $VERIF_SCRATCH (default
the system temp dir) and are removed when the check exits.
"""

import atexit
import concurrent.futures
import os
import shutil
import subprocess
import sys
import sysconfig
import tempfile

REPO = os.environ.get("VERIF_REPO", "/repo")
VERIF = os.path.dirname(os.path.dirname(os.path.abspath(__file__)))
VENV_PY = os.path.join(VERIF, ".venv", "bin", "python")

HARNESS_ERROR = 3  # reserved exit code: the machinery (not pytype) is wrong

_CFG_SOURCES = ["cfg", "cfg_logging", "pylogging", "reachable", "solver",
                "typegraph"]


def ensure_venv():
  """Creates /verif/.venv if missing (a fresh restore only has committed files)."""
  subprocess.run([os.path.join(VERIF, "setup.sh")], check=True)
  return VENV_PY


def in_venv():
  return os.path.realpath(sys.prefix) == os.path.realpath(
      os.path.join(VERIF, ".venv"))


def reexec_in_venv():
  """Re-executes the current script with the overlay interpreter."""
  if in_venv():
    return
  py = ensure_venv()
  os.execv(py, [py] + sys.argv)


_scratch_dirs = []


def _cleanup():
  for d in _scratch_dirs:
    shutil.rmtree(d, ignore_errors=True)


atexit.register(_cleanup)


def scratch_dir(prefix):
  base = os.environ.get("VERIF_SCRATCH") or tempfile.gettempdir()
  d = tempfile.mkdtemp(prefix=prefix, dir=base)
  _scratch_dirs.append(d)
  return d


def build_cfg(extra_flags=(), keep=False):
  """Compiles pytype/typegraph/*.cc from REPO into a fresh scratch dir.

  Returns the directory holding cfg.<abi>.so; the harness prelude appends it
  to pytype.typegraph.__path__.
  """
  out = scratch_dir("verif_cfg_")
  if keep:
    _scratch_dirs.remove(out)
  # The compile must use the headers of the interpreter that will import it.
  inc_py = subprocess.run(
      ["/venv/bin/python", "-c",
       "import sysconfig,pybind11;print(sysconfig.get_paths()['include']);"
       "print(pybind11.get_include());"
       "print(sysconfig.get_config_var('EXT_SUFFIX'))"],
      check=True, capture_output=True, text=True).stdout.split()
  inc, pyb, suffix = inc_py
  src_dir = os.path.join(REPO, "pytype", "typegraph")
  flags = ["-O1", "-std=c++20", "-fPIC", "-fvisibility=hidden", "-w",
           "-I" + inc, "-I" + pyb, "-I" + REPO] + list(extra_flags)

  def compile_one(name):
    obj = os.path.join(out, name + ".o")
    r = subprocess.run(
        ["g++"] + flags + ["-c", os.path.join(src_dir, name + ".cc"), "-o", obj],
        capture_output=True, text=True)
    if r.returncode != 0:
      raise RuntimeError("cfg build failed for %s:\n%s" % (name, r.stderr))
    return obj

  with concurrent.futures.ThreadPoolExecutor(len(_CFG_SOURCES)) as ex:
    objs = list(ex.map(compile_one, _CFG_SOURCES))
  so = os.path.join(out, "cfg" + suffix)
  r = subprocess.run(["g++", "-shared", "-o", so] + objs,
                     capture_output=True, text=True)
  if r.returncode != 0:
    raise RuntimeError("cfg link failed:\n" + r.stderr)
  for o in objs:
    os.unlink(o)
  return out
