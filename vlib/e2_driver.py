"""C09 check (engine E2): emits LLVM IR from /repo's C++ sources, discharges the
obligations in parallel worker processes, validates the translator against
the compiled extension, replays sat models on the compiled extension."""

import concurrent.futures
import json
import os
import random
import subprocess
import sys
import time

from vlib import driver as e1_driver
from vlib import env

PID = "C09"
BOUNDARY = [63, 64, 65, 66, 127, 128, 129]
CLANG_FLAGS = ["-std=c++20", "-O1", "-fno-vectorize", "-fno-slp-vectorize",
               "-fno-unroll-loops", "-fno-exceptions", "-S", "-emit-llvm"]


def emit_ir():
  out = env.scratch_dir("verif_ir_")
  inc = subprocess.run(
      ["/venv/bin/python", "-c", "import sysconfig;print(sysconfig.get_paths()['include'])"],
      check=True, capture_output=True, text=True).stdout.strip()
  for name in ("reachable", "typegraph"):
    r = subprocess.run(
        ["clang++-14"] + CLANG_FLAGS + ["-I" + env.REPO, "-I" + inc,
                                        os.path.join(env.REPO, "pytype/typegraph", name + ".cc"),
                                        "-o", os.path.join(out, name + ".ll")],
        capture_output=True, text=True)
    if r.returncode:
      raise RuntimeError("clang failed for %s:\n%s" % (name, r.stderr[-2000:]))
  return out


def plan(tier):
  """List of (obligation, args) batches."""
  jobs = []
  small = list(range(1, 9)) + [16]

  def pairs_all(n):
    return [(a, b) for a in range(n) for b in range(n)]

  def chunks(xs, m):
    return [xs[i:i + m] for i in range(0, len(xs), m)]

  def pairs_edge(n):
    """Above 100 nodes: every pair with an endpoint next to a 64-bit word
    boundary or at either end of the id range (all rows x boundary columns and
    boundary rows x all columns)."""
    edge = {i for i in (0, 1, 62, 63, 64, 65, 126, 127, 128, n - 2, n - 1) if 0 <= i < n}
    return [(a, b) for a in range(n) for b in range(n) if a in edge or b in edge]

  conn_sizes = small + ([65] if tier == "quick" else BOUNDARY)
  for n in conn_sizes:
    per = 400 if n <= 16 else 60
    for ch in chunks(pairs_all(n) if n < 100 else pairs_edge(n), per):
      jobs.append(("add_connection", {"n": n, "pairs": ch}))
  reach_sizes = small + ([65] if tier == "quick" else [64, 65, 128, 130])
  for n in reach_sizes:
    for ch in chunks(pairs_all(n) if n < 100 else pairs_edge(n), 600):
      jobs.append(("is_reachable", {"n": n, "pairs": ch}))
  node_sizes = list(range(0, 9)) + [63, 64, 65, 127, 128] + ([] if tier == "quick" else [129, 191, 192])
  for n in node_sizes:
    for layout in ("spare", "realloc"):
      jobs.append(("add_node", {"n": n, "layout": layout}))
  for n in ([2, 3, 4] if tier == "quick" else [2, 3, 4, 5]):
    jobs.append(("closure_lemma", {"n": n}))
  hist = [(2, 2), (3, 3), (4, 4)] if tier == "quick" else [(2, 2), (3, 3), (4, 4), (3, 5), (5, 4), (5, 5)]
  for n, k in hist:
    jobs.append(("history", {"n": n, "k": k}))
  return jobs


_PROCS = set()
_STOP = [False]


def run_worker(ir_dir, ob, args, timeout):
  t0 = time.time()
  if _STOP[0]:
    return {"ob": ob, "args": args, "error": "cancelled", "wall_s": 0}
  p = subprocess.Popen([env.VENV_PY, "-m", "vlib.e2_c09", ir_dir, ob, json.dumps(args)],
                       cwd=env.VERIF, stdout=subprocess.PIPE, stderr=subprocess.PIPE, text=True)
  _PROCS.add(p)
  so = se = ""
  try:
    so, se = p.communicate(timeout=timeout)
    out = json.loads(so.strip().splitlines()[-1])
  except subprocess.TimeoutExpired:
    p.kill()
    out = {"ob": ob, "args": args, "error": "timeout"}
  except (ValueError, IndexError):
    out = {"ob": ob, "args": args,
           "error": "cancelled" if _STOP[0] else "worker crashed: " + (se or so)[-1500:]}
  finally:
    _PROCS.discard(p)
  out["wall_s"] = round(time.time() - t0, 2)
  return out


# ------------------------------------------------------- compiled real code

_REAL = r'''
import json, sys
import pytype.typegraph as t
t.__path__.append(sys.argv[1])
from pytype.typegraph import cfg
req = json.loads(sys.argv[2])
n = req["n"]
p = cfg.Program()
nodes = [p.NewCFGNode("n%d" % i) for i in range(n)]
edges = []
steps = []
for a, b in req["edges"]:
  nodes[a].ConnectTo(nodes[b])
  edges.append((a, b))
  if req.get("every_step") or len(edges) == len(req["edges"]):
    steps.append([[bool(p.is_reachable(nodes[i], nodes[j])) for j in range(n)] for i in range(n)])
print(json.dumps(steps))
'''


def real_history(cfg_dir, n, edges, every_step=True):
  p = subprocess.run(
      ["/venv/bin/python", "-c", _REAL, cfg_dir,
       json.dumps({"n": n, "edges": edges, "every_step": every_step})],
      cwd=env.REPO, capture_output=True, text=True, timeout=600)
  return json.loads(p.stdout.strip().splitlines()[-1])


def bfs_closure(n, edges):
  reach = [[i == j for j in range(n)] for i in range(n)]
  for a, b in edges:
    reach[a][b] = True
  for k in range(n):
    for i in range(n):
      if reach[i][k]:
        for j in range(n):
          if reach[k][j]:
            reach[i][j] = True
  return reach


def replay_history(cfg_dir, n, edges):
  """Runs an edge history on the compiled extension; returns the first
  disagreement with graph reachability, or None."""
  steps = real_history(cfg_dir, n, edges)
  for s, got in enumerate(steps):
    want = bfs_closure(n, edges[:s + 1])
    for i in range(n):
      for j in range(n):
        if got[i][j] != want[i][j]:
          return {"after_edge": s + 1, "edges": edges[:s + 1], "pair": [i, j],
                  "is_reachable": got[i][j], "path_exists": want[i][j]}
  return None


def replay_contract(cfg_dir, ir_dir, entry):
  """A contract counterexample whose matrix is reflexive and transitively
  closed (i.e. reachable) is turned into an edge history and run on the
  compiled extension."""
  del ir_dir
  n = entry["n"]
  m = entry["matrix"]
  # analyzer bit(i, j) set <=> CFG edge j -> i (ConnectTo registers edges backwards)
  edges = [[j, i] for i in range(n) for j in range(n)
           if i != j and (m[i][j // 64] >> (j % 64)) & 1]
  if entry["ob"] == "add_connection":
    edges.append([entry["dst"], entry["src"]])
  if not edges:
    edges = [[0, 0]]   # a self-edge: no change of reachability, but the queries run
  return replay_history(cfg_dir, n, edges)


def translator_validation(cfg_dir, ir_dir, seed):
  """The interpreter (concrete run of the IR) and the compiled extension must
  agree on the graphs of reachable_test.cc and on random histories."""
  rng = random.Random(seed)
  cases = [
      (4, [[0, 1], [1, 2], [2, 3]]),
      (4, [[0, 1], [1, 2], [2, 0], [2, 3]]),
      (5, [[0, 1], [0, 2], [1, 3], [2, 3], [3, 4]]),
  ]
  for n in (6, 40, 70, 140):
    m = n if n > 40 else 2 * n
    cases.append((n, [[rng.randrange(n), rng.randrange(n)] for _ in range(m)]))
  bad = []
  for n, edges in cases:
    real = real_history(cfg_dir, n, edges, every_step=False)[-1]
    out = run_worker(ir_dir, "concrete_history", {"n": n, "edges": edges}, 1800)
    if out.get("error") or out["results"][0]["matrix"] != real:
      bad.append({"n": n, "edges": edges[:8], "error": out.get("error")})
  return len(cases), bad


def main(tier):
  t0 = time.time()
  seed = int(os.environ.get("VERIF_SEED", "0") or 0)
  ir_dir = emit_ir()
  cfg_dir = env.build_cfg()
  known = e1_driver.load_known(PID)
  jobs = plan(tier)
  print("== C09 tier=%s batches=%d known_findings=%d" % (tier, len(jobs), len(known)))
  results, errors = [], []
  ncases, tv_bad = translator_validation(cfg_dir, ir_dir, seed)
  if tv_bad:
    errors.append("translator validation: interpreter and compiled extension disagree: %r" % tv_bad[:2])
  ncpu = int(os.environ.get("VERIF_NCPU", "16"))
  order = list(range(len(jobs)))
  random.Random(seed).shuffle(order)
  # long jobs first
  order.sort(key=lambda i: (0 if jobs[i][0] == "history" else 1, jobs[i][1].get("n", 0) > 16))
  with concurrent.futures.ThreadPoolExecutor(ncpu) as ex:
    futs = [ex.submit(run_worker, ir_dir, jobs[i][0], jobs[i][1], 7200) for i in order]
    for f in concurrent.futures.as_completed(futs):
      out = f.result()
      results.append(out)
      failing = [r for r in out.get("results", [])
                 if r["result"] == "sat" or r.get("padding") == "sat" or not r.get("shape_ok", True)]
      if failing and not _STOP[0]:
        # a candidate violation: try to reproduce it right away; a reproduced one
        # decides the run, so the remaining batches are cancelled
        v = failing[0]
        w = None
        if v["ob"] == "history" and "edges" in v:
          w = replay_history(cfg_dir, v["n"], [list(e) for e in v["edges"]])
        elif v["ob"] in ("add_connection", "is_reachable") and "matrix" in v:
          w = replay_contract(cfg_dir, ir_dir, v)
        if w:
          v["witness"] = w
          _STOP[0] = True
          for q in list(_PROCS):
            q.kill()
  obligations = discharged = queries = 0
  solver_s = 0.0
  violations, inconclusive, samples = [], [], []
  stubs = set()
  by_ob = {}
  for out in results:
    queries += out.get("queries", 0)
    solver_s += out.get("solver_s", 0.0)
    if out.get("error") == "cancelled":
      continue
    if out.get("error"):
      if out["error"] == "timeout":
        inconclusive.append("%s %s: timeout" % (out["ob"], json.dumps(out["args"])[:80]))
      else:
        errors.append("%s %s: %s" % (out["ob"], json.dumps(out["args"])[:80], out["error"][:300]))
      continue
    for r in out["results"]:
      obligations += 1
      c = by_ob.setdefault(r["ob"], {"obligations": 0, "discharged": 0})
      c["obligations"] += 1
      stubs.update(r.get("stubs", []))
      ok = r["result"] == "unsat" and r.get("padding", "unsat") == "unsat" and r.get("shape_ok", True)
      if ok:
        discharged += 1
        c["discharged"] += 1
        if len(samples) < 12 and obligations % 97 == 1:
          samples.append({k: v for k, v in r.items() if k != "matrix"})
      elif r["result"] == "unknown":
        inconclusive.append("%s: solver unknown" % json.dumps({k: v for k, v in r.items() if k != "matrix"}))
      else:
        violations.append(r)
  # replay candidate violations on the compiled extension
  out_lines = []
  rc = 0
  reproduced = 0
  violations.sort(key=lambda v: 0 if "witness" in v else 1)
  for v in violations[:4]:
    witness = v.get("witness")
    if witness is None and not reproduced:
      if v["ob"] == "history" and "edges" in v:
        witness = replay_history(cfg_dir, v["n"], [list(e) for e in v["edges"]])
      elif v["ob"] in ("add_connection", "is_reachable") and "matrix" in v:
        witness = replay_contract(cfg_dir, ir_dir, v)
    if witness:
      reproduced += 1
      path = e1_driver.save_replay(PID, {"obligation": {k: x for k, x in v.items() if k != "matrix"},
                                         "witness_on_compiled_extension": witness,
                                         "module": "vlib.e2_driver", "fn": "replay_history",
                                         "call": {"n": v["n"], "edges": witness["edges"]}})
      out_lines.append("VIOLATION property=%s replay=%s" % (PID, path))
      rc = 1
    elif not reproduced:
      errors.append("candidate violation did not reproduce on the compiled extension "
                    "(pre-state unreachable or model wrong): %s" %
                    json.dumps({k: x for k, x in v.items() if k != "matrix"}))
  coverage = {
      "explanation": (
          "reachable.cc and typegraph.cc are compiled to LLVM IR with clang++-14 (%s) on every run and executed "
          "by a bounded symbolic interpreter over z3 bit-vectors (vlib/e2_interp.py). Obligations, each an unsat "
          "query: add_connection contract bit'(i,j) <=> bit(i,j) or (bit(i,src) and bit(dst,j)) with header unchanged "
          "and zero padding preserved, for ARBITRARY 64-bit matrix contents and every concrete (src,dst) of the "
          "listed node counts; is_reachable(a,b) == bit(a,b); add_node contract from any state with zero padding in "
          "the spare-capacity and the reallocating layout (vector::_M_default_append/_M_fill_insert interpreted); "
          "closure lemma at model level; Program-level bounded histories: n nodes created through the real "
          "constructor/add_node, k CFGNode::ConnectTo calls with SYMBOLIC endpoints through the real ConnectTo -> "
          "add_connection, after every step Program::is_reachable for all pairs equals the Warshall closure of the "
          "edges so far (covers orientation, self-edges, duplicate edges, any insertion order)." % " ".join(CLANG_FLAGS)),
      "functions_encoded": [
          "pytype/typegraph/reachable.cc: ReachabilityAnalyzer::ReachabilityAnalyzer, add_node, add_connection, is_reachable (+ std::vector<std::vector<long>>::_M_default_append, std::vector<long>::_M_fill_insert)",
          "pytype/typegraph/typegraph.cc: CFGNode::ConnectTo, Program::is_reachable"],
      "bounds": {
          "add_connection": "all (src,dst) for node counts below 100, and every (src,dst) with an endpoint at 0, 1, 62-65, 126-128, n-2 or n-1 above; node counts %s" % sorted({j[1]["n"] for j in jobs if j[0] == "add_connection"}),
          "is_reachable": "all (a,b) for node counts below 100, the same boundary rows/columns above; node counts %s" % sorted({j[1]["n"] for j in jobs if j[0] == "is_reachable"}),
          "add_node": "from node counts %s, both layouts" % sorted({j[1]["n"] for j in jobs if j[0] == "add_node"}),
          "closure_lemma": "n <= %d" % max(j[1]["n"] for j in jobs if j[0] == "closure_lemma"),
          "history (nodes, edges)": [(j[1]["n"], j[1]["k"]) for j in jobs if j[0] == "history"],
      },
      "outside_claim": ["node counts other than those listed / above 192", "node ids >= 2^31",
                        "NewCFGNode (std::map / unique_ptr bookkeeping)", "Variable::Prune and other users of reachability",
                        "the production build's optimisation level and exception tables (IR is emitted at -O1 -fno-exceptions)"],
      "obligations": obligations, "discharged": discharged, "per_obligation": by_ob,
      "queries": queries, "solver_s": round(solver_s, 1),
      "evaluations": obligations, "distinct_nontrivial": discharged,
      "rule": "one obligation = one unsat query over a symbolic pre-state; all are distinct and non-trivial",
      "samples": samples,
      "traces_validated_against_impl": ncases,
      "translator_validation": "%d concrete histories (reachable_test.cc graphs + random up to 140 nodes) run through the interpreter and the compiled extension: %d disagreements" % (ncases, len(tv_bad)),
      "candidate_violations": len(violations), "reproduced_on_compiled_extension": reproduced,
      "exhaustive": not inconclusive and not errors and discharged == obligations,
      "inconclusive": inconclusive, "harness_errors": errors,
      "checker_cmd": "z3 %s via python API" % _z3v(),
      "trusted_base": ["clang++-14 front end and -O1 pipeline", "vlib/e2_interp.py (validated against the compiled extension on concrete histories)", "z3",
                       "textbook lemma for n > 5: the update rule applied to a closed relation yields the closure"],
      "stubs": sorted(stubs) + ["Program::InvalidateSolver = no-op", "llvm.memset/memmove word-wise", "llvm.assume -> assumption",
                                "std::__throw_* -> path infeasible"],
  }
  e1_driver.write_evidence(PID, tier, seed, coverage, [
      "operator new returns a fresh block of unconstrained words; operator delete is a no-op",
      "ConnectTo histories: incoming_/outgoing_ vectors are given spare capacity (push_back's in-place path)",
      "struct layouts computed from the emitted module's types under the x86-64 data layout"],
                           time.time() - t0, reproduced)
  for s in inconclusive:
    print("INCONCLUSIVE property=%s %s" % (PID, s))
  for s in errors:
    print("HARNESS-ERROR property=%s %s" % (PID, s[:400]))
  for l in out_lines:
    print(l)
  print("== C09: %d/%d obligations discharged, %d queries, %.0fs solver, translator validation %d/%d, %.0fs wall" % (
      discharged, obligations, queries, solver_s, ncases - len(tv_bad), ncases, time.time() - t0))
  if rc == 0 and errors:
    rc = env.HARNESS_ERROR
  return rc


def _z3v():
  import z3  # pylint: disable=g-import-not-at-top
  return z3.get_version_string()
