"""Replays one harness call on plain CPython (no tracing) against /repo.

  python -m vlib.replay <module> <fn> '<json {"args": [...], "kwargs": {...}}>'
  python -m vlib.replay --file <replay.json>

Prints {"ok": bool, ...}; ok is False when the postcondition is false or the
harness body raised.
"""

import importlib
import json
import os
import sys
import traceback


def _tuplify(x):
  if isinstance(x, list):
    return tuple(_tuplify(y) for y in x)
  return x


def run(module, fn, call):
  mod = importlib.import_module(module)
  f = getattr(mod, fn)
  args = [_tuplify(a) for a in call.get("args", [])]
  kwargs = {k: _tuplify(v) for k, v in call.get("kwargs", {}).items()}
  out = {}
  try:
    r = f(*args, **kwargs)
    out["returned"] = repr(r)
    out["ok"] = bool(r)
  except Exception as e:  # pylint: disable=broad-except
    out["ok"] = False
    out["raised"] = "%s: %s" % (type(e).__name__, e)
    out["traceback"] = traceback.format_exc()[-1500:]
  explain = getattr(mod, "explain", None)
  if explain is not None and not out["ok"]:
    try:
      out["explain"] = explain(fn, *args, **kwargs)
    except Exception as e:  # pylint: disable=broad-except
      out["explain"] = "explain failed: %r" % (e,)
  return out


def main():
  if sys.argv[1] == "--file":
    rec = json.load(open(sys.argv[2]))
    if "witness_on_compiled_extension" in rec:
      # engine E2 (C09): re-run the edge history on the compiled extension
      from vlib import e2_driver  # pylint: disable=g-import-not-at-top
      call = rec["call"]
      w = e2_driver.replay_history(os.environ["VERIF_CFG_DIR"], call["n"],
                                   [list(e) for e in call["edges"]])
      print(json.dumps({"ok": w is None, "disagreement": w}, indent=1)[:3000])
      sys.exit(0 if w is None else 1)
    for k, v in rec.get("params", {}).items():
      os.environ["VERIF_PARAM_" + k] = str(v)
    os.environ["VERIF_TIER"] = rec.get("tier", "quick")
    for k, v in rec.get("extra_env", {}).items():
      os.environ[k] = v
    out = run(rec["module"], rec["fn"], rec["call"])
    print(json.dumps(out, indent=1))
    sys.exit(0 if out["ok"] else 1)
  out = run(sys.argv[1], sys.argv[2], json.loads(sys.argv[3]))
  sys.stdout.write("\n" + json.dumps(out) + "\n")


if __name__ == "__main__":
  main()
