"""Minimal LLVM-14 textual IR reader for the E2 bounded symbolic interpreter.

Only what clang++-14 -O1 emits for the functions we interpret is supported;
anything else raises Unsupported (the check then exits with the harness-error
code: never a silent truncation).
"""

import re


class Unsupported(Exception):
  pass


# ------------------------------------------------------------------- types

class Type:
  pass


class IntT(Type):

  def __init__(self, bits):
    self.bits = bits

  def __repr__(self):
    return "i%d" % self.bits


class PtrT(Type):

  def __init__(self, to):
    self.to = to

  def __repr__(self):
    return "%r*" % (self.to,)


class NamedT(Type):

  def __init__(self, name):
    self.name = name

  def __repr__(self):
    return self.name


class StructT(Type):

  def __init__(self, fields, packed=False):
    self.fields = fields
    self.packed = packed

  def __repr__(self):
    return "{%s}" % ", ".join(map(repr, self.fields))


class ArrayT(Type):

  def __init__(self, n, elem):
    self.n, self.elem = n, elem

  def __repr__(self):
    return "[%d x %r]" % (self.n, self.elem)


class VoidT(Type):

  def __repr__(self):
    return "void"


class OpaqueT(Type):

  def __repr__(self):
    return "opaque"


class FuncT(Type):

  def __repr__(self):
    return "fn"


class TypeParser:
  """Recursive-descent parser for the type grammar we meet."""

  def __init__(self, text, pos=0):
    self.t, self.p = text, pos

  def ws(self):
    while self.p < len(self.t) and self.t[self.p] in " \t":
      self.p += 1

  def parse(self):
    self.ws()
    t = self.t
    if t.startswith("void", self.p):
      self.p += 4
      base = VoidT()
    elif t.startswith("opaque", self.p):
      self.p += 6
      base = OpaqueT()
    elif t[self.p] == "i" and t[self.p + 1].isdigit():
      m = re.compile(r"i(\d+)").match(t, self.p)
      self.p = m.end()
      base = IntT(int(m.group(1)))
    elif t[self.p] == "%":
      if t[self.p + 1] == '"':
        e = t.index('"', self.p + 2)
        name = t[self.p:e + 1]
        self.p = e + 1
      else:
        m = re.compile(r"%[\w.$-]+").match(t, self.p)
        name = m.group(0)
        self.p = m.end()
      base = NamedT(name)
    elif t[self.p] == "{" or t.startswith("<{", self.p):
      packed = t[self.p] == "<"
      self.p += 2 if packed else 1
      fields = []
      self.ws()
      if t[self.p] != "}":
        while True:
          fields.append(self.parse())
          self.ws()
          if t[self.p] == ",":
            self.p += 1
            continue
          break
      self.ws()
      assert t[self.p] == "}", t[self.p:self.p + 20]
      self.p += 2 if packed else 1
      base = StructT(fields, packed)
    elif t[self.p] == "[":
      m = re.compile(r"\[\s*(\d+)\s+x\s+").match(t, self.p)
      self.p = m.end()
      elem = self.parse()
      self.ws()
      assert t[self.p] == "]"
      self.p += 1
      base = ArrayT(int(m.group(1)), elem)
    elif t.startswith("float", self.p) or t.startswith("double", self.p):
      n = 5 if t.startswith("float", self.p) else 6
      self.p += n
      base = IntT(32 if n == 5 else 64)
    else:
      raise Unsupported("type at %r" % t[self.p:self.p + 40])
    # suffixes: pointers and function types
    while True:
      self.ws()
      if self.p < len(t) and t[self.p] == "*":
        self.p += 1
        base = PtrT(base)
      elif self.p < len(t) and t[self.p] == "(":
        depth = 0
        while True:
          c = t[self.p]
          depth += c == "("
          depth -= c == ")"
          self.p += 1
          if depth == 0:
            break
        base = FuncT()
      else:
        return base


class Module:

  def __init__(self, text):
    self.named = {}
    self.functions = {}
    self._parse(text)

  # ---- layout (x86-64 SysV data layout) ----
  def resolve(self, t):
    while isinstance(t, NamedT):
      if t.name not in self.named:
        raise Unsupported("unknown type %s" % t.name)
      d = self.named[t.name]
      if isinstance(d, str):   # parsed lazily: big modules define many types we never touch
        d = self.named[t.name] = TypeParser(d).parse()
      t = d
    return t

  def size_align(self, t):
    t = self.resolve(t)
    if isinstance(t, IntT):
      n = max(1, (t.bits + 7) // 8)
      p = 1
      while p < n:
        p *= 2
      return p, min(p, 8)
    if isinstance(t, PtrT):
      return 8, 8
    if isinstance(t, ArrayT):
      s, a = self.size_align(t.elem)
      return s * t.n, a
    if isinstance(t, StructT):
      off, maxa = 0, 1
      for f in t.fields:
        s, a = self.size_align(f)
        if t.packed:
          a = 1
        off = (off + a - 1) // a * a
        off += s
        maxa = max(maxa, a)
      off = (off + maxa - 1) // maxa * maxa
      return off, maxa
    raise Unsupported("size of %r" % (t,))

  def field_offset(self, t, idx):
    t = self.resolve(t)
    off = 0
    for i, f in enumerate(t.fields):
      s, a = self.size_align(f)
      if t.packed:
        a = 1
      off = (off + a - 1) // a * a
      if i == idx:
        return off, f
      off += s
    raise Unsupported("field %d of %r" % (idx, t))

  # ---- parsing ----
  def _parse(self, text):
    lines = text.split("\n")
    i = 0
    while i < len(lines):
      line = lines[i]
      m = re.match(r'^(%"[^"]+"|%[\w.$-]+) = type (.*)$', line)
      if m:
        self.named[m.group(1)] = m.group(2)
      elif line.startswith("define "):
        j = i
        while lines[j] != "}":
          j += 1
        fn = Function(lines[i:j + 1])
        self.functions[fn.name] = fn
        i = j
      i += 1


class Function:

  def __init__(self, lines):
    head = lines[0]
    m = re.search(r"@([\w.$]+)\(", head)
    self.name = m.group(1)
    # split arguments at top-level commas
    start = m.end()
    depth, k = 1, start
    while depth:
      c = head[k]
      depth += c == "("
      depth -= c == ")"
      k += 1
    args = _split_top(head[start:k - 1])
    self.params = []
    for a in args:
      a = a.strip()
      if not a or a == "...":
        continue
      tp = TypeParser(a)
      ty = tp.parse()
      name = a.rsplit(" ", 1)[-1]
      self.params.append((name, ty))
    self.blocks = {}
    self.order = []
    # the entry block's implicit label is the first unnamed value after the
    # (unnamed) parameters: %<number of parameters>
    cur = "%" + str(len(self.params))
    self.blocks[cur] = []
    self.order.append(cur)
    for line in lines[1:-1]:
      s = line.split(";")[0].rstrip() if not line.lstrip().startswith(";") else ""
      if not s.strip():
        continue
      m = re.match(r"^([\w.$-]+):", s)
      if m:
        cur = "%" + m.group(1)
        self.blocks[cur] = []
        self.order.append(cur)
        continue
      self.blocks[cur].append(s.strip())
    # the entry block's label is the number after the last parameter; find it from
    # predecessors comments is unreliable, so map "entry" when first referenced
    self.entry = "entry"


def _split_top(s):
  out, depth, cur = [], 0, ""
  in_str = False
  for c in s:
    if c == '"':
      in_str = not in_str
    if not in_str:
      if c in "([{<":
        depth += 1
      elif c in ")]}>":
        depth -= 1
      elif c == "," and depth == 0:
        out.append(cur)
        cur = ""
        continue
    cur += c
  if cur.strip():
    out.append(cur)
  return out
