"""Per-property driver for E1 (CrossHair) checks: ./check <ID> [quick|thorough]."""

import importlib
import json
import os
import re
import sys
import time

from vlib import e1
from vlib import env

KNOWN_FILE = os.path.join(env.VERIF, "known_findings.txt")


def load_known(pid):
  """Returns {key: description} of recorded (unrepaired) findings for pid."""
  out = {}
  if not os.path.exists(KNOWN_FILE):
    return out
  for line in open(KNOWN_FILE):
    line = line.strip()
    m = re.match(r"known:\s+property=(\S+)\s+key=(\S+)\s+(.*)", line)
    if m and m.group(1) == pid:
      out[m.group(2)] = m.group(3)
  return out


def write_evidence(pid, tier, seed, coverage, assumptions, wall, violations):
  evdir = os.environ.get("VERIF_EVIDENCE_DIR") or os.path.join(env.VERIF, "evidence")
  os.makedirs(evdir, exist_ok=True)
  ev = {
      "property_id": pid, "tier": tier, "seed": seed, "level": "other",
      "coverage": coverage, "assumptions": assumptions,
      "wall_s": round(wall, 1), "violations": violations,
  }
  path = os.path.join(evdir, pid + ".json")
  with open(path + ".tmp", "w") as f:
    json.dump(ev, f, indent=1, sort_keys=True)
  os.replace(path + ".tmp", path)
  return path


def save_replay(pid, v):
  d = os.path.join(env.VERIF, "replays")
  os.makedirs(d, exist_ok=True)
  n = 0
  while os.path.exists(os.path.join(d, "%s-%d.json" % (pid, n))):
    n += 1
  path = os.path.join(d, "%s-%d.json" % (pid, n))
  v = dict(v)
  v["property"] = pid
  v["how_to_replay"] = "./check replay " + path
  with open(path, "w") as f:
    json.dump(v, f, indent=1)
  return path


def main(pid, tier):
  t0 = time.time()
  seed = int(os.environ.get("VERIF_SEED", "0") or 0)
  spec = importlib.import_module("props." + pid.lower())
  cfg_dir = env.build_cfg()
  jobs = spec.jobs(tier)
  only = os.environ.get("VERIF_ONLY_JOBS")   # development aid: a sub-run never rewrites evidence/
  if only:
    jobs = [j for j in jobs if j.name in only.split(",")]
    os.environ.setdefault("VERIF_EVIDENCE_DIR", env.scratch_dir("evidence-partial"))
  known = load_known(pid)
  print("== %s tier=%s jobs=%d known_findings=%d" % (
      pid, tier, len(jobs), len(known)))
  known_lines = []
  harness_errors = []
  # 1. Recorded findings: confirm each one still fails (directed run).
  for key, desc in known.items():
    kf = getattr(spec, "KNOWN", {}).get(key)
    if kf is None:
      harness_errors.append("known finding %s has no directed job" % key)
      continue
    r = e1.run_jobs(pid, tier, [kf], cfg_dir, seed,
                    extra_env={"VERIF_KF_ONLY": key})
    if r.violations:
      line = "KNOWN-FINDING: property=%s %s (key=%s)" % (pid, desc, key)
      print(line)
      known_lines.append(line)
    else:
      print("NOTE: recorded finding key=%s did not reproduce on this tree "
            "(%s)" % (key, r.inconclusive or r.harness_errors or "confirmed"))
  # 1b. Harness validation declared by the spec (concrete comparisons of the
  # harness's model of the code with the real pipeline; never a deciding step).
  validation = []
  if hasattr(spec, "validate") and not only:
    validation = spec.validate(tier, cfg_dir)
    for v in validation:
      print("VALIDATION %s" % v["summary"])
      if not v["ok"]:
        harness_errors.append("harness validation failed: %s" % v["summary"])
  # 2. Main run, recorded classes excluded so anything found is new.
  extra = {"VERIF_KF_EXCLUDE": ",".join(sorted(known))} if known else None
  res = e1.run_jobs(pid, tier, jobs, cfg_dir, seed, extra_env=extra)
  harness_errors += res.harness_errors
  for j in jobs:
    if res.empty.get(j.name, 0) and not res.confirmed.get(j.name, 0) and not res.violations:
      harness_errors.append("job %s: every finished shard was empty" % j.name)
  evaluations, distinct, nontrivial, samples = e1.summarize_records(res.records)
  workers = [w for w in res.shards if not w["twin"]]
  confirmed = sum(
      1 for w in workers
      if w.get("messages") and not w.get("error") and
      all(m["state"] in ("CONFIRMED", "PRE_UNSAT") for m in w["messages"]))
  empty_shards = sum(res.empty.values())
  queries = sum(w.get("z3", {}).get("checks", 0) for w in res.shards)
  solver_s = sum(w.get("z3", {}).get("solver_s", 0.0) for w in res.shards)
  meta = spec.meta(tier)
  per_job = {}
  for j in jobs:
    d = res.records.get(j.name, {})
    ws = [w for w in workers if w["job"] == j.name]
    per_job[j.name] = {
        "function": j.module + "." + j.fn, "params": j.params,
        "shards": j.shards, "per_shard_timeout_s": j.timeout,
        "shards_confirmed": sum(
            1 for w in ws if w.get("messages") and not w.get("error") and
            all(m["state"] in ("CONFIRMED", "PRE_UNSAT") for m in w["messages"])),
        "shards_empty": res.empty.get(j.name, 0),
        "paths": sum(d.values()), "distinct_inputs": len(d),
        "cpu_wall_s": round(sum(w["wall_s"] for w in ws), 1),
        "note": j.note}
  coverage = {
      "explanation": meta["explanation"],
      "engine": "CrossHair 0.0.110 (per-path symbolic execution of CPython "
                "bytecode, feasibility decided by z3 %s); contract-"
                "enforcement tracer disabled (see DESIGN.md 2.2)" % _z3v(),
      "functions_encoded": meta["functions_encoded"],
      "bounds": meta["bounds"],
      "outside_claim": meta.get("outside", []),
      "rule": meta["rule"],
      "evaluations": evaluations,
      "distinct_inputs": distinct,
      "distinct_nontrivial": nontrivial,
      "samples": samples,
      "obligations": len(workers) + res.twins,
      "discharged": confirmed + res.twins_ok,
      "empty_shards": empty_shards,
      "reachability_twins_refuted": "%d/%d" % (res.twins_ok, res.twins),
      "queries": queries,
      "solver_s": round(solver_s, 1),
      "exhaustive": (confirmed == len(workers) and not res.inconclusive
                     and not harness_errors),
      "inconclusive": res.inconclusive,
      "harness_errors": harness_errors,
      "jobs": per_job,
      "known_findings_reproduced": known_lines,
      "harness_validation": validation,
      "trusted_base": meta.get("trusted_base", []),
  }
  rc = 0
  out_lines = []
  for v in res.violations:
    path = save_replay(pid, v)
    out_lines.append("VIOLATION property=%s replay=%s" % (pid, path))
    rc = 1
  write_evidence(pid, tier, seed, coverage, meta["assumptions"],
                 time.time() - t0, len(res.violations))
  for s in res.inconclusive:
    print("INCONCLUSIVE property=%s %s" % (pid, s))
  for s in harness_errors:
    print("HARNESS-ERROR property=%s %s" % (pid, s))
  for l in out_lines:
    print(l)
  print("== %s: %d/%d shards confirmed, twins %d/%d, %d paths, %d distinct "
        "inputs (%d non-trivial), %d z3 queries, %.0fs solver, %.0fs wall" % (
            pid, confirmed, len(workers), res.twins_ok, res.twins, evaluations,
            distinct, nontrivial, queries, solver_s, time.time() - t0))
  if rc == 0 and harness_errors:
    rc = env.HARNESS_ERROR
  return rc


def _z3v():
  try:
    import z3  # pylint: disable=g-import-not-at-top
    return z3.get_version_string()
  except Exception:  # pylint: disable=broad-except
    return "?"
