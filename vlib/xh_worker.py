"""One CrossHair analysis of one harness function (one shard).  Run as

  python -m vlib.xh_worker <module> <function> <per_condition_timeout>

Environment: VERIF_SHARD_K/R, VERIF_TWIN, VERIF_TIER, VERIF_RECORD,
VERIF_CFG_DIR, VERIF_ONLY_KF / VERIF_EXCLUDE_KF (see vlib/e1.py).
Prints one JSON object on the last stdout line.

The only modification of the tool: CrossHair's contract *enforcement* tracer
(which rewrites every `Cls(...)` call in traced code into __new__ + __init__
and thereby breaks msgspec structs, i.e. every pytd node) is switched off.
We never put contracts on callees, so nothing is lost.
"""

import importlib
import json
import os
import sys
import time


def main():
  mod_name, fn_name, timeout = sys.argv[1], sys.argv[2], float(sys.argv[3])
  sys.setrecursionlimit(10000)
  import z3  # pylint: disable=g-import-not-at-top
  stats = {"checks": 0, "solver_s": 0.0, "sat": 0, "unsat": 0, "unknown": 0}
  orig_check = z3.Solver.check

  def counting_check(self, *a):
    t0 = time.perf_counter()
    r = orig_check(self, *a)
    stats["solver_s"] += time.perf_counter() - t0
    stats["checks"] += 1
    stats[str(r)] = stats.get(str(r), 0) + 1
    return r

  z3.Solver.check = counting_check

  import crosshair.enforce  # pylint: disable=g-import-not-at-top
  crosshair.enforce.EnforcedConditions.trace_call = (
      lambda self, frame, fn, binding_target: None)
  from crosshair.core_and_libs import (  # pylint: disable=g-import-not-at-top
      MessageType, analyze_function, run_checkables)
  from crosshair.options import (  # pylint: disable=g-import-not-at-top
      AnalysisKind, AnalysisOptionSet)

  if "re" in os.environ.get("VERIF_UNPATCH", "").split(","):
    # Jobs whose strings are concrete run CPython's own `re` instead of
    # CrossHair's symbolic regex model (which is unfaithful for some
    # constructs, e.g. look-behind).
    import re  # pylint: disable=g-import-not-at-top
    import crosshair.core  # pylint: disable=g-import-not-at-top
    regs = crosshair.core._PATCH_REGISTRATIONS  # pylint: disable=protected-access
    for k in list(regs):
      if k is re._compile or getattr(k, "__objclass__", None) is re.Pattern:  # pylint: disable=protected-access
        del regs[k]

  if "weakref" in os.environ.get("VERIF_UNPATCH", "").split(","):
    # CrossHair's weakref model calls gc.collect() on EVERY dereference to make
    # dead references deterministic.  pytype reaches its Context through a
    # weakref (utils.ContextWeakrefMixin.ctx) thousands of times per match and
    # the Context is alive for the whole process, so the model only adds a full
    # collection of pytype's heap per access (measured: > 90 % of a path's time).
    import weakref  # pylint: disable=g-import-not-at-top
    import crosshair.core  # pylint: disable=g-import-not-at-top
    regs = crosshair.core._PATCH_REGISTRATIONS  # pylint: disable=protected-access
    regs.pop(weakref.ref.__call__, None)

  t0 = time.time()
  out = {"module": mod_name, "fn": fn_name, "messages": []}
  try:
    mod = importlib.import_module(mod_name)
    fn = getattr(mod, fn_name)
    options = AnalysisOptionSet(
        analysis_kind=[AnalysisKind.PEP316],
        per_condition_timeout=timeout,
        per_path_timeout=max(30.0, timeout / 4),
        max_uninteresting_iterations=0,  # 0 = unlimited: only exhaustion or timeout stops
        report_all=True,
    )
    checkables = analyze_function(fn, options)
    if not checkables:
      out["error"] = "no checkable conditions found"
    for m in run_checkables(checkables):
      out["messages"].append({
          "state": MessageType(m.state).name,
          "message": m.message,
          "line": m.line,
      })
  except Exception as e:  # pylint: disable=broad-except
    import traceback  # pylint: disable=g-import-not-at-top
    out["error"] = "%s: %s\n%s" % (type(e).__name__, e, traceback.format_exc())
  out["wall_s"] = round(time.time() - t0, 3)
  out["z3"] = {k: (round(v, 3) if isinstance(v, float) else v)
               for k, v in stats.items()}
  sys.stdout.write("\n" + json.dumps(out) + "\n")
  sys.stdout.flush()
  os._exit(0)  # skip slow interpreter teardown of z3 contexts


if __name__ == "__main__":
  main()
