"""E1 runner: shards CrossHair analyses of harness functions over 16 cores,
maps verdicts, replays counterexamples on plain CPython, writes evidence.

Verdict mapping per shard (one CrossHair process each):
  CONFIRMED          -> held on every path of the shard's bounded space
  POST_FAIL/EXEC_ERR/POST_ERR -> candidate violation; replayed untraced; only a
                        reproduced one is reported (VIOLATION ... exit 1); a
                        non-reproducing one is a harness error (exit 3)
  CANNOT_CONFIRM / PRE_UNSAT / timeout / crash -> inconclusive (never success)
The reachability twin (same preconditions and body, post False) must be
refuted, else exit 3.
"""

import ast
import concurrent.futures
import dataclasses
import json
import os
import subprocess
import sys
import time

from vlib import env

NCPU = int(os.environ.get("VERIF_NCPU", "16"))


@dataclasses.dataclass
class Job:
  name: str
  module: str
  fn: str
  params: dict = dataclasses.field(default_factory=dict)
  shards: int = 16
  timeout: float = 300.0  # CrossHair per_condition_timeout per shard (CPU-ish s)
  twin_timeout: float = 60.0
  note: str = ""
  env: dict = dataclasses.field(default_factory=dict)  # extra worker environment


def _base_env(tier, cfg_dir, params):
  e = dict(os.environ)
  e["VERIF_TIER"] = tier
  e["PYTHONHASHSEED"] = "0"
  if cfg_dir:
    e["VERIF_CFG_DIR"] = cfg_dir
  for k in list(e):
    if k.startswith("VERIF_PARAM_") or k in ("VERIF_TWIN", "VERIF_RECORD",
                                              "VERIF_SHARD_K", "VERIF_SHARD_R"):
      del e[k]
  for k, v in params.items():
    e["VERIF_PARAM_" + k] = str(v)
  return e


def _run_worker(job, tier, cfg_dir, k, r, twin, rec_path, extra_env=None):
  e = _base_env(tier, cfg_dir, job.params)
  e["VERIF_SHARD_K"] = str(k)
  e["VERIF_SHARD_R"] = str(r)
  if twin:
    e["VERIF_TWIN"] = "1"
  if rec_path:
    e["VERIF_RECORD"] = rec_path
  if extra_env:
    e.update(extra_env)
  e.update(job.env)
  timeout = job.twin_timeout if twin else job.timeout
  t0 = time.time()
  res = {"job": job.name, "shard": r, "of": k, "twin": twin}
  try:
    p = subprocess.run(
        [env.VENV_PY, "-m", "vlib.xh_worker", job.module, job.fn, str(timeout)],
        cwd=env.VERIF, env=e, capture_output=True, text=True,
        timeout=timeout * 1.5 + 120)
    last = p.stdout.strip().splitlines()[-1] if p.stdout.strip() else ""
    try:
      res.update(json.loads(last))
    except ValueError:
      res["error"] = "worker produced no result (rc=%s): %s" % (
          p.returncode, (p.stderr or p.stdout)[-2000:])
  except subprocess.TimeoutExpired:
    res["error"] = "worker wall timeout"
  res["wall_s"] = round(time.time() - t0, 2)
  return res


def parse_call(message, fn_name):
  """Extracts the concrete arguments from CrossHair's '... when calling f(...)'."""
  marker = "when calling "
  i = message.find(marker)
  if i < 0:
    return None
  src = message[i + len(marker):].strip()
  # message may continue with " (which returns ...)"
  for cut in (" (which returns", " (which raises"):
    j = src.find(cut)
    if j >= 0:
      src = src[:j]
  try:
    node = ast.parse(src, mode="eval").body
    if not isinstance(node, ast.Call):
      return None
    args = [ast.literal_eval(a) for a in node.args]
    kwargs = {k.arg: ast.literal_eval(k.value) for k in node.keywords}
    return {"args": args, "kwargs": kwargs}
  except (SyntaxError, ValueError):
    return None


def replay(job, tier, cfg_dir, call, extra_env=None):
  """Runs the harness function untraced on concrete arguments."""
  e = _base_env(tier, cfg_dir, job.params)
  if extra_env:
    e.update(extra_env)
  p = subprocess.run(
      [env.VENV_PY, "-m", "vlib.replay", job.module, job.fn, json.dumps(call)],
      cwd=env.VERIF, env=e, capture_output=True, text=True, timeout=600)
  try:
    return json.loads(p.stdout.strip().splitlines()[-1])
  except (ValueError, IndexError):
    return {"error": "replay crashed: " + (p.stderr or p.stdout)[-2000:]}


class Result:

  def __init__(self):
    self.shards = []          # raw worker results
    self.violations = []      # reproduced
    self.harness_errors = []
    self.inconclusive = []
    self.records = {}         # job name -> {key: count}
    self.twins_ok = 0
    self.twins = 0
    self.cancelled = 0
    self.confirmed = {}
    self.empty = {}


def run_jobs(pid, tier, jobs, cfg_dir, seed=0, extra_env=None, log=print):
  """Runs twins then all shards of all jobs; returns a Result."""
  res = Result()
  rec_dir = env.scratch_dir("verif_rec_")
  tasks = []
  for job in jobs:
    tasks.append((job, 1, 0, True, None))  # the twin runs unsharded
    order = list(range(job.shards))
    rot = seed % max(1, job.shards)
    order = order[rot:] + order[:rot]
    for r in order:
      rec = os.path.join(rec_dir, "%s.%d.rec" % (job.name, r))
      tasks.append((job, job.shards, r, False, rec))
  # longest jobs first would be ideal; twins are cheap and go first
  with concurrent.futures.ThreadPoolExecutor(NCPU) as ex:
    futs = {
        ex.submit(_run_worker, j, tier, cfg_dir, k, r, twin, rec, extra_env):
        (j, k, r, twin, rec) for (j, k, r, twin, rec) in tasks}
    for fut in concurrent.futures.as_completed(futs):
      job, k, r, twin, rec = futs[fut]
      if fut.cancelled():
        res.cancelled += 1
        continue
      w = fut.result()
      res.shards.append(w)
      states = [m["state"] for m in w.get("messages", [])]
      label = "%s[%s%d/%d]" % (job.name, "twin " if twin else "", r, k)
      if twin:
        res.twins += 1
        if "POST_FAIL" in states:
          res.twins_ok += 1
        else:
          res.harness_errors.append(
              "%s: reachability twin not refuted (%s %s)" % (
                  label, states, w.get("error", "")))
        continue
      npaths = 0
      if rec and os.path.exists(rec):
        d = res.records.setdefault(job.name, {})
        with open(rec) as f:
          for line in f:
            line = line.rstrip("\n")
            d[line] = d.get(line, 0) + 1
            npaths += 1
        os.unlink(rec)
      if w.get("error"):
        res.inconclusive.append("%s: %s" % (label, w["error"][:300]))
        continue
      bad = [m for m in w["messages"]
             if m["state"] in ("POST_FAIL", "EXEC_ERR", "POST_ERR")]
      if bad:
        for m in bad:
          call = parse_call(m["message"], job.fn)
          if call is None:
            res.harness_errors.append(
                "%s: cannot parse counterexample: %s" % (label, m["message"]))
            continue
          rp = replay(job, tier, cfg_dir, call, extra_env)
          if rp.get("ok") is False:
            # one reproduced counterexample decides the run: stop queued shards
            for f2 in futs:
              f2.cancel()
            if len(res.violations) >= 3:
              continue
            res.violations.append({
                "job": job.name, "module": job.module, "fn": job.fn,
                "params": job.params, "tier": tier, "call": call,
                "crosshair_message": m["message"], "replay": rp,
                "extra_env": extra_env or {}})
          else:
            res.harness_errors.append(
                "%s: counterexample did not reproduce untraced: %s -> %s" % (
                    label, m["message"], rp))
      elif states and all(s == "CONFIRMED" for s in states):
        res.confirmed[job.name] = res.confirmed.get(job.name, 0) + 1
      elif states == ["PRE_UNSAT"]:
        # The shard constraint together with the (fork-free, linear)
        # preconditions is unsatisfiable: an empty shard.  Accepted only
        # because the unsharded reachability twin of the same job must be
        # refuted and at least one shard of the job must confirm (checked by
        # the caller); counted separately in the evidence.
        res.empty[job.name] = res.empty.get(job.name, 0) + 1
      else:
        res.inconclusive.append("%s: %s" % (label, states or "no verdict"))
      log("  %-40s %-16s %6.1fs paths=%d" % (
          label, ",".join(states) or "-", w["wall_s"], npaths))
  return res


def summarize_records(records, max_samples=6):
  evaluations = 0
  distinct = 0
  distinct_nontrivial = 0
  samples = []
  for name, d in sorted(records.items()):
    evaluations += sum(d.values())
    distinct += len(d)
    nt = [k for k in d if k.endswith(" N")]
    distinct_nontrivial += len(nt)
    step = max(1, len(nt) // 3)
    for k in sorted(nt)[::step][:3]:
      if len(samples) < max_samples * 3:
        samples.append({"job": name, "decoded_input": k[:600]})
  return evaluations, distinct, distinct_nontrivial, samples
