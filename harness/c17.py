"""C17 — boolean-equation terms (pytype/pytd/booleq.py) under CrossHair.

Symbolic inputs: a term tree given as a fixed-size vector of selectors
(kind, a, b per node of a complete ternary tree), an assignment sigma of a
value index to every variable, and (for simplify) a table of possible values
whose membership tests answer with symbolic booleans.

Oracle: direct evaluation of the selector tree with ==/and/or.  No booleq code
is used in the oracle.
"""

import collections.abc
from typing import Tuple

from vlib.prelude import (  # noqa
    record, shard_ok, check_post, TIER, param, conc, inrange, all_inrange)

from pytype.pytd import booleq

DEPTH = param("C17_DEPTH", quick=2, thorough=3)
NV = param("C17_NV", quick=3, thorough=2)
NVAL = param("C17_NVAL", quick=3, thorough=2)
ARITY = param("C17_ARITY", quick=3, thorough=2)   # max children of And/Or
SWAP = param("C17_SWAP", quick=1, thorough=0)     # also build Eq(value, var)
NARROW = param("C17_NARROW", quick=0, thorough=0)  # leaf level: only variable ~a; Eq(var,var) only (~a,~b)

NODES = sum(3**d for d in range(DEPTH))
FIRST_LEAF = sum(3**d for d in range(DEPTH - 1))
VARS = ["~a", "~b", "~c"][:NV]
VALS = ["v0", "v1", "v2"][:NVAL]

TREE = Tuple[(int,) * (3 * NODES)]
SIGMA = Tuple[(int,) * NV]
TABLE = Tuple[(bool,) * (NV * NVAL)]

K_TRUE, K_FALSE, K_EQ, K_EQVV, K_EQSWAP, K_AND0, K_OR0, K_AND, K_OR = range(9)
CHAIN = param("C17_CHAIN", quick=0, thorough=0)  # 1: only the first child of And/Or may be composite
NARROW_ALL = param("C17_NARROW_ALL", quick=0, thorough=0)  # 1: inner levels use the narrow leaf kinds too
BASE = [K_TRUE, K_FALSE, K_EQ, K_EQVV] + ([K_EQSWAP] if SWAP else [])
INNER = BASE + [K_AND0, K_OR0, K_AND, K_OR]
# kinds allowed at the deepest level (NARROW=2: only TRUE and ~a == value)
LEAF = [K_TRUE, K_EQ] if NARROW == 2 else BASE
if DEPTH == 1:
  INNER = LEAF
elif NARROW_ALL:
  INNER = LEAF + [K_AND, K_OR]


def tree_ok(t):
  """Validity predicate of the selector vector (exact bounds; no forks)."""
  conds = []
  for i in range(NODES):
    kinds = LEAF if i >= FIRST_LEAF else INNER
    k, a, b = t[3 * i], t[3 * i + 1], t[3 * i + 2]
    conds.append(inrange(k, 0, len(kinds)))
    conds.append(0 <= a)
    conds.append(0 <= b)
    if i < FIRST_LEAF:
      andor = any([k == INNER.index(K_AND), k == INNER.index(K_OR)])
      conds.append(any([all([andor, a < ARITY]),
                        all([andor ^ True, a < (1 if NARROW_ALL else NV)])]))
      if CHAIN and i > 0 and (i - 1) % 3 != 0:
        conds.append(andor ^ True)   # not the first child: a leaf kind
    else:
      conds.append(a < (1 if NARROW else NV))
    if K_EQVV not in kinds:
      conds.append(b < NVAL)
    elif NARROW and i >= FIRST_LEAF:
      conds.append(any([all([k == kinds.index(K_EQVV), b == 1]),
                        all([k != kinds.index(K_EQVV), b < NVAL])]))
    else:
      conds.append(any([all([k == kinds.index(K_EQVV), b < NV]),
                        all([k != kinds.index(K_EQVV), b < NVAL])]))
  return all(conds)


def decode(t, i=0):
  """Selector vector -> concrete nested tuple (kind, a, b, children)."""
  kinds = LEAF if i >= FIRST_LEAF else INNER
  k = kinds[conc(t[3 * i], len(kinds))]
  if k in (K_TRUE, K_FALSE, K_AND0, K_OR0):
    return (k, 0, 0, ())
  if k in (K_AND, K_OR):
    a = conc(t[3 * i + 1], ARITY)
    return (k, a, 0, tuple(decode(t, 3 * i + 1 + j) for j in range(a + 1)))
  a = conc(t[3 * i + 1], NV)
  b = conc(t[3 * i + 2], NV if k == K_EQVV else NVAL)
  return (k, a, b, ())


def canon_ok(t):
  """Selectors the decoder will not look at are pinned to 0 (no forks), so the
  leading selectors identify an input uniquely and shards do not overlap."""
  if FIRST_LEAF == 0:
    return True
  i_and, i_or = INNER.index(K_AND), INNER.index(K_OR)
  andor = any([t[0] == i_and, t[0] == i_or])
  uses_a = all([t[0] != INNER.index(k) for k in (K_TRUE, K_FALSE, K_AND0, K_OR0)
                if k in INNER])
  return all([
      any([uses_a, t[1] == 0]),
      any([andor, t[3] == 0]),
      any([all([andor, t[1] >= 1]), t[6] == 0]),
      any([all([andor, t[1] >= 2]), t[9] == 0]),
  ])


def shard_key(t):
  if FIRST_LEAF == 0:
    return t[0]
  return t[0] + 9 * (t[1] + 3 * (t[3] + 9 * (t[6] + 9 * t[9])))


def snap(term):
  """Structural snapshot of a real term (to detect mutation of operands)."""
  if term is booleq.TRUE or term is booleq.FALSE:
    return repr(term)
  if isinstance(term, booleq._Eq):  # pylint: disable=protected-access
    return ("eq", term.left, term.right)
  return (type(term).__name__, frozenset(snap(e) for e in term.exprs))


def build(d, log=None):
  """Builds the term through the public constructors only.

  Every constructed (sub)term is appended to `log` with its snapshot so the
  harness can assert that later constructor calls did not modify it.
  """
  term = _build(d, log)
  if log is not None:
    log.append((term, snap(term)))
  return term


def unmodified(log):
  return all([snap(term) == s0 for term, s0 in log])


def _build(d, log):
  k, a, b, kids = d
  if k == K_TRUE:
    return booleq.TRUE
  if k == K_FALSE:
    return booleq.FALSE
  if k == K_EQ:
    return booleq.Eq(VARS[a], VALS[b])
  if k == K_EQSWAP:
    return booleq.Eq(VALS[b], VARS[a])
  if k == K_EQVV:
    return booleq.Eq(VARS[a], VARS[b])
  if k == K_AND0:
    return booleq.And([])
  if k == K_OR0:
    return booleq.Or([])
  sub = [build(c, log) for c in kids]
  return booleq.And(sub) if k == K_AND else booleq.Or(sub)


def oracle(d, sigma):
  """Truth value of the decoded tree under sigma: plain connectives, no forks."""
  k, a, b, kids = d
  if k == K_TRUE or k == K_AND0:
    return True
  if k == K_FALSE or k == K_OR0:
    return False
  if k == K_EQ or k == K_EQSWAP:
    return sigma[a] == b
  if k == K_EQVV:
    return sigma[a] == sigma[b]
  if k == K_AND:
    return all([oracle(c, sigma) for c in kids])
  return any([oracle(c, sigma) for c in kids])


def ev(term, sigma):
  """Truth value of a real booleq term under sigma (no forks)."""
  if term is booleq.TRUE:
    return True
  if term is booleq.FALSE:
    return False
  if isinstance(term, booleq._Eq):  # pylint: disable=protected-access
    l = sigma[VARS.index(term.left)]
    if term.right in VARS:
      return l == sigma[VARS.index(term.right)]
    return l == VALS.index(term.right)
  if isinstance(term, booleq._And):  # pylint: disable=protected-access
    return all([ev(e, sigma) for e in term.exprs])
  if isinstance(term, booleq._Or):  # pylint: disable=protected-access
    return any([ev(e, sigma) for e in term.exprs])
  raise AssertionError("not a boolean term: %r" % (term,))


def normal_form_ok(term):
  """TRUE/FALSE absorbed, nested terms flattened, Eq ordered, x==x is TRUE."""
  if term is booleq.TRUE or term is booleq.FALSE:
    return True
  if isinstance(term, booleq._Eq):  # pylint: disable=protected-access
    return term.left > term.right and term.left in VARS
  if isinstance(term, (booleq._And, booleq._Or)):  # pylint: disable=protected-access
    if len(term.exprs) < 2:
      return False
    for e in term.exprs:
      if e is booleq.TRUE or e is booleq.FALSE or type(e) is type(term):
        return False
      if not normal_form_ok(e):
        return False
    return True
  return False


def nontrivial(d):
  return d[0] in (K_AND, K_OR)


class SymSet(collections.abc.Set):
  """Set of possible values whose membership answers are the symbolic bools.

  A faithful set-like object (in, iteration, len and the Set mixin operators);
  iterating or taking len forks on the membership bits it needs.
  """

  def __init__(self, row):
    self.row = row

  def __contains__(self, v):
    if v not in VALS:
      return False
    return self.row[VALS.index(v)]

  def __iter__(self):
    for i, v in enumerate(VALS):
      if self.row[i]:
        yield v

  def __len__(self):
    return sum(1 for _ in self)

  @classmethod
  def _from_iterable(cls, it):
    return frozenset(it)


def sigma_ok(sigma):
  return all_inrange(sigma, 0, NVAL)


def h_build(t: TREE, sigma: SIGMA) -> bool:
  """
  pre: tree_ok(t) and sigma_ok(sigma)
  pre: canon_ok(t) and shard_ok(shard_key(t))
  post: check_post(_)
  """
  d = decode(t)
  log = []
  term = build(d, log)
  again = build(d)
  ok = all([normal_form_ok(term), ev(term, sigma) == oracle(d, sigma),
            term == again, hash(term) == hash(again), unmodified(log)])
  record("B %r %s" % (d, "N" if nontrivial(d) else "T"))
  return ok


def table_admits(table, sigma):
  """sigma(x) is in T[x] for every variable x (one solver term)."""
  return all([any([all([sigma[x] == v, table[x * NVAL + v]])
                   for v in range(NVAL)]) for x in range(NV)])


def h_simplify(t: TREE, sigma: SIGMA, table: TABLE) -> bool:
  """
  pre: tree_ok(t) and sigma_ok(sigma)
  pre: canon_ok(t) and shard_ok(shard_key(t))
  pre: table_admits(table, sigma)
  post: check_post(_)
  """
  d = decode(t)
  log = []
  term = build(d, log)
  assignments = {
      VARS[x]: SymSet(table[x * NVAL:(x + 1) * NVAL]) for x in range(NV)}
  try:
    simp = term.simplify(assignments)
  except Exception:  # pylint: disable=broad-except
    record("S %r RAISED" % (d,))
    return False
  ok = all([ev(simp, sigma) == oracle(d, sigma), unmodified(log)])
  record("S %r %s" % (d, "N" if nontrivial(d) else "T"))
  return ok
