"""C16 — opcode list and ordered block graph, under CrossHair.

h_graph: cfg_utils.compute_predecessors / order_nodes on a symbolic digraph.
h_code : a synthetic disassembly (real pycnite Opcode / ExceptionTable
  objects; symbolic instruction kinds, jump targets, inline-cache gaps and
  exception-table entries) goes through the real opcodes.build_opcodes,
  blocks.add_pop_block_targets and blocks.compute_order; the resulting
  instruction list and ordered block graph are checked against the property:
  indices and next/prev links consistent, every jump resolved to the op at
  the offset it named, synthetic SETUP_EXCEPT_311/POP_BLOCK placed around each
  protected range, blocks non-empty and partitioning the instructions in
  order, every jump target starts a block, and the order lists every block
  that is reachable at INSTRUCTION level from the entry exactly once with a
  predecessor before each non-entry block.

The inputs are a superset of what CPython emits (arbitrary link-consistent
instruction lists); the stated compiler guarantees are listed in the evidence.
"""

from typing import Tuple

from vlib.prelude import (  # noqa
    record, shard_ok, check_post, TIER, param, conc, inrange, all_inrange,
    untraced, kf_skip)

import pycnite.types

from pytype.blocks import blocks
from pytype.pyc import opcodes
from pytype.typegraph import cfg_utils

# ------------------------------------------------------------------- h_graph

GN = param("C16_GN", quick=3, thorough=4)
GRAPH_SEL = Tuple[(int,) * (GN * GN)]


class Node:

  def __init__(self, i):
    self.id = i
    self.outgoing = []
    self.incoming = []

  def __repr__(self):
    return "n%d" % self.id


def graph_ok(t):
  return all_inrange(t, 0, 2)


def graph_key(t):
  key = 0
  for x in t[:9]:
    key = key * 2 + x
  return key


def h_graph(t: GRAPH_SEL) -> bool:
  """
  pre: graph_ok(t)
  pre: shard_ok(graph_key(t))
  post: check_post(_)
  """
  adj = [[conc(t[i * GN + j], 2) == 1 for j in range(GN)] for i in range(GN)]
  nodes = [Node(i) for i in range(GN)]
  for i in range(GN):
    for j in range(GN):
      if adj[i][j]:
        nodes[i].outgoing.append(nodes[j])
        nodes[j].incoming.append(nodes[i])
  # oracle: reflexive transitive closure by iterated squaring of the relation
  reach = [[i == j or adj[i][j] for j in range(GN)] for i in range(GN)]
  for k in range(GN):
    for i in range(GN):
      for j in range(GN):
        if reach[i][k] and reach[k][j]:
          reach[i][j] = True
  preds = cfg_utils.compute_predecessors(nodes)
  ok = []
  for j in range(GN):
    ok.append({n.id for n in preds[nodes[j]]} == {i for i in range(GN) if reach[i][j]})
  order = cfg_utils.order_nodes(nodes)
  ids = [n.id for n in order]
  ok.append(len(set(ids)) == len(ids))
  ok.append(set(ids) == {j for j in range(GN) if reach[0][j]})
  ok.append(ids[0] == 0)
  for pos, j in enumerate(ids[1:], 1):
    ok.append(any(adj[i][j] for i in ids[:pos]))
  record("G %s %s" % ("".join("1" if adj[i][j] else "0" for i in range(GN)
                              for j in range(GN)),
                      "N" if sum(map(sum, adj)) >= 2 else "T"))
  return all(ok)


# -------------------------------------------------------------------- h_code

KOPS = param("C16_KOPS", quick=5, thorough=6)
NEXC = param("C16_NEXC", quick=1, thorough=2)
MINEXC = param("C16_MINEXC", quick=0, thorough=0)   # entries that must be present
NOEG = param("C16_NOEG", quick=0, thorough=0)       # 1: no range ends inside a cache gap
GAPS = param("C16_GAPS", quick=3, thorough=3)   # 3: all inline-cache patterns; 1: only "every other instruction"
# per op: kind, target index, (unused, 0); then the inline-cache pattern (0 none, 1 every
# instruction, 2 every other one); then per exception entry: present, start, end,
# end_in_gap, target, lasti
OW, EW = 3, 6
CODE_SEL = Tuple[(int,) * (OW * KOPS + EW * NEXC + 1)]
GAP_AT = OW * KOPS + EW * NEXC

PLAIN, CONDJ, JUMP, RET, RAISE = range(5)
KIND_NAMES = ["LOAD_CONST", "POP_JUMP_IF_FALSE", "JUMP", "RETURN_VALUE", "RAISE_VARARGS"]
VERSION = (3, 12)


def code_ok(t):
  conds = []
  for i in range(KOPS):
    kind, tgt, gap = t[OW * i:OW * i + OW]
    is_jump = any([kind == CONDJ, kind == JUMP])
    conds += [inrange(kind, 0, 5), gap == 0,
              any([all([is_jump, inrange(tgt, 0, KOPS), tgt != i]),
                   all([is_jump ^ True, tgt == 0])])]
  # compiler guarantee: control cannot fall off the end of the code
  conds.append(any([t[OW * (KOPS - 1)] == JUMP, t[OW * (KOPS - 1)] == RET,
                    t[OW * (KOPS - 1)] == RAISE]))
  conds.append(inrange(t[GAP_AT], 0, 3) if GAPS == 3 else t[GAP_AT] == 2)
  base = OW * KOPS
  for e in range(NEXC):
    pres, st, en, eg, tg, lasti = t[base + EW * e:base + EW * e + EW]
    conds += [
        inrange(pres, 1 if e < MINEXC else 0, 2),
        any([all([pres == 0, st == 0, en == 0, eg == 0, tg == 0, lasti == 0]),
             all([pres == 1, 0 <= st, st <= en, en < tg, tg < KOPS,
                  inrange(eg, 0, 1 if NOEG else 2), inrange(lasti, 0, 2),
                  # compiler guarantee: the handler follows the protected range, and a
                  # range that gets a block ends strictly before the last instruction
                  en < KOPS - 1])]),
    ]
    # `end in the gap` needs a gap after the end op (pinned otherwise)
    for i in range(KOPS):
      has_gap = any([t[GAP_AT] == 1, all([t[GAP_AT] == 2, i % 2 == 0])])
      conds.append(any([pres == 0, en != i, eg == 0, has_gap]))
    if e:
      conds.append(any([pres == 0, t[base + EW * (e - 1)] == 1]))
      # compiler guarantee: exception-table entries are disjoint and sorted by start
      # (assemble_exception_table emits one entry per maximal run of instructions
      # with the same handler)
      conds.append(any([pres == 0, st > t[base + EW * (e - 1) + 2]]))
  return all(conds)


def code_key(t):
  key = 0
  for i in range(KOPS):
    key = key * 5 + t[OW * i]
  key = key * 7 + t[OW + 1] + t[2 * OW + 1]
  key = key * 3 + t[GAP_AT]
  if NEXC:
    key = key * 2 + t[OW * KOPS]
  return key


def decode_code(t):
  ops = []
  for i in range(KOPS):
    kind = conc(t[OW * i], 5)
    tgt = conc(t[OW * i + 1], KOPS) if kind in (CONDJ, JUMP) else None
    ops.append((kind, tgt, 0))
  pattern = conc(t[GAP_AT], 3)
  ops = [(k, tg, 1 if (pattern == 1 or (pattern == 2 and i % 2 == 0)) else 0)
         for i, (k, tg, _) in enumerate(ops)]
  excs = []
  base = OW * KOPS
  for e in range(NEXC):
    if conc(t[base + EW * e], 2) == 0:
      break
    excs.append((conc(t[base + EW * e + 1], KOPS), conc(t[base + EW * e + 2], KOPS),
                 conc(t[base + EW * e + 3], 2), conc(t[base + EW * e + 4], KOPS),
                 conc(t[base + EW * e + 5], 2)))
  return ops, excs


class FakeCode:
  python_version = VERSION
  co_name = "f"


def make_dis(ops, excs):
  """pycnite-level disassembly: offsets with inline-cache gaps, jump argvals
  are target OFFSETS, exception entries use (inclusive) offsets."""
  offsets = []
  off = 0
  for kind, tgt, gap in ops:
    offsets.append(off)
    off += 4 if gap else 2
  out = []
  for i, (kind, tgt, gap) in enumerate(ops):
    if kind == JUMP:
      name = "JUMP_FORWARD" if tgt > i else "JUMP_BACKWARD"
    else:
      name = KIND_NAMES[kind]
    if kind in (CONDJ, JUMP):
      arg = argval = offsets[tgt]
    elif kind in (PLAIN, RAISE):
      arg = argval = 0
    else:
      arg = argval = None
    out.append(pycnite.types.Opcode(offsets[i], i + 1, i + 1, 0, 1, 0, name, arg, argval))
  entries = []
  for st, en, eg, tg, lasti in excs:
    end = offsets[en] + (2 if eg else 0)
    entries.append(pycnite.types.ExceptionTableEntry(
        offsets[st], end, offsets[tg], 0, bool(lasti)))
  return pycnite.types.DisassembledCode(
      FakeCode(), out, pycnite.types.ExceptionTable(entries), []), offsets


def instr_successors(op):
  """Instruction-level control flow, including pytype's ordering-only edges."""
  succ = []
  if not op.no_next() and op.next is not None:
    succ.append(op.next)
  if op.target is not None:
    succ.append(op.target)
  if op.block_target is not None:
    succ.append(op.block_target)
  return succ


def check_code(ops_spec, excs):
  """Returns a list of problems; raises Skip for inputs outside the claim."""
  problems = []
  dis, offsets = make_dis(ops_spec, excs)
  ops = opcodes.build_opcodes(dis)
  # --- instruction list ---
  n = len(ops)
  if [op.index for op in ops] != list(range(n)):
    problems.append("indices are not 0..n-1")
  for i, op in enumerate(ops):
    if op.prev is not (ops[i - 1] if i else None) or op.next is not (ops[i + 1] if i + 1 < n else None):
      problems.append("prev/next links inconsistent at %d" % i)
  original = [op for op in ops if not isinstance(op, (opcodes.SETUP_EXCEPT_311, opcodes.POP_BLOCK))]
  if len(original) != len(ops_spec):
    problems.append("an instruction was lost or duplicated")
  else:
    for i, (kind, tgt, gap) in enumerate(ops_spec):
      op = original[i]
      if kind in (CONDJ, JUMP):
        if op.target is not original[tgt]:
          problems.append("jump %d resolved to %r, named instruction %d" % (i, op.target, tgt))
        elif op.target is not ops[op.arg]:
          problems.append("jump %d: arg does not index its target" % i)
      elif op.target is not None:
        problems.append("non-jump %d has a target" % i)
  # synthetic block markers around each range that gets a block
  seen_lines = set()
  expect_blocks = []
  for st, en, eg, tg, lasti in excs:
    if not lasti and st not in seen_lines:
      seen_lines.add(st)
      expect_blocks.append((st, en, tg))
  setups = [op for op in ops if isinstance(op, opcodes.SETUP_EXCEPT_311)]
  pops = [op for op in ops if isinstance(op, opcodes.POP_BLOCK)]
  if len(setups) != len(expect_blocks) or len(pops) != len(expect_blocks):
    problems.append("expected %d exception blocks, found %d SETUP_EXCEPT_311 / %d POP_BLOCK" % (
        len(expect_blocks), len(setups), len(pops)))
  elif len(original) == len(ops_spec):
    for st, en, tg in expect_blocks:
      if not any(s.next is original[st] and s.target is original[tg] for s in setups):
        problems.append("no SETUP_EXCEPT_311 -> handler %d immediately before %d" % (tg, st))
      if not any(p.prev is original[en] for p in pops):
        problems.append("no POP_BLOCK immediately after %d" % en)
  if problems:
    return problems
  return problems + check_blocks(ops, pops)


def check_blocks(ops, pops):
  """Block-graph part of the property for an arbitrary opcode list."""
  problems = []
  try:
    blocks.add_pop_block_targets(ops)
  except AssertionError as e:
    if "POP_BLOCK without block" in str(e):
      raise Skip() from e   # not block-structured: outside the claim
    raise
  order = blocks.compute_order(ops, VERSION)
  all_blocks = set(order)
  frontier = list(order)
  while frontier:
    b = frontier.pop()
    for nb in list(b.outgoing) + list(b.incoming):
      if nb not in all_blocks:
        all_blocks.add(nb)
        frontier.append(nb)
  block_of = {}
  for b in all_blocks:
    if not b.code:
      problems.append("empty block")
    for op in b.code:
      if op in block_of:
        problems.append("instruction %d in two blocks" % op.index)
      block_of[op] = b
    idx = [op.index for op in b.code]
    if idx != list(range(idx[0], idx[0] + len(idx))):
      problems.append("block %d is not a run of consecutive instructions" % b.id)
    if b.id != idx[0]:
      problems.append("block id %d is not its first index %d" % (b.id, idx[0]))
  if len(set(id(b) for b in order)) != len(order):
    problems.append("a block is listed twice in the order")
  if not order or order[0].code[0] is not ops[0]:
    problems.append("order does not start at the entry block")
  # instruction-level reachability from the entry
  reach = {ops[0]}
  todo = [ops[0]]
  while todo:
    op = todo.pop()
    for s in instr_successors(op):
      if s not in reach:
        reach.add(s)
        todo.append(s)
  # Is some synthetic POP_BLOCK unreachable when the SETUP -> handler edges are
  # ignored?  (classification of the recorded finding, see kf_class)
  reach2 = {ops[0]}
  todo = [ops[0]]
  while todo:
    op = todo.pop()
    for s in instr_successors(op):
      if isinstance(op, opcodes.SETUP_EXCEPT_311) and s is op.target:
        continue
      if s not in reach2:
        reach2.add(s)
        todo.append(s)
  INFO["pop_unreachable"] = any(p not in reach2 for p in pops)
  ordered_ops = {op for b in order for op in b.code}
  for op in reach:
    if op not in ordered_ops:
      problems.append("reachable instruction %d (%s) is in no ordered block" % (op.index, op.name))
  for op in ops:
    for tgt in (op.target, op.block_target):
      if tgt is not None and op in reach:
        b = block_of.get(tgt)
        if b is None or b.code[0] is not tgt:
          problems.append("jump target %d does not start a block" % tgt.index)
  placed = set()
  for pos, b in enumerate(order):
    if pos and not any(p in placed for p in b.incoming):
      problems.append("block %d is ordered before all of its predecessors" % b.id)
    placed.add(b)
  return problems


class Skip(Exception):
  pass


INFO = {}


def kf_class(ops_spec, excs, problems):
  """Recorded-finding class of a failing input (or None).

  handler-only-via-setup: the synthetic POP_BLOCK of a protected range cannot
  be reached (the range ends in / contains an unconditional jump, return or
  raise), so the only instruction-level edge to the handler is SETUP -> handler,
  which compute_order draws only when the SETUP is first in its block.
  """
  only_unordered = all(p.startswith("reachable instruction") or
                       p.startswith("jump target") for p in problems)
  if only_unordered and INFO.get("pop_unreachable"):
    return "handler-only-via-setup"
  return None


def h_code(t: CODE_SEL) -> bool:
  """
  pre: code_ok(t)
  pre: shard_ok(code_key(t))
  post: check_post(_)
  """
  ops_spec, excs = decode_code(t)
  INFO.clear()
  try:
    problems = check_code(ops_spec, excs)
    tag = "N" if (excs or any(k in (CONDJ, JUMP) for k, _, _ in ops_spec)) else "T"
  except Skip:
    problems = []
    tag = "T"
  if problems and kf_skip(kf_class(ops_spec, excs, problems)):
    problems = []
  record("O %s | %s %s" % (
      " ".join("%s%s%s" % (KIND_NAMES[k][:4], "" if tg is None else "->%d" % tg,
                           "+" if g else "") for k, tg, g in ops_spec),
      ";".join("%d..%d%s=>%d%s" % (st, en, "+" if eg else "", tg, "L" if la else "")
               for st, en, eg, tg, la in excs), tag))
  return not problems


def explain(fn, t):
  if fn == "h_graph":
    return {"adjacency": [[t[i * GN + j] for j in range(GN)] for i in range(GN)]}
  if fn == "h_real":
    src = real_source(t)
    out = {"program": src, "problems": []}
    for dc in disassemble(src):
      INFO.clear()
      try:
        pr = check_real(dc)
      except Skip:
        pr = ["add_pop_block_targets fails with 'POP_BLOCK without block' on real compiler output"]
      except Exception as e:  # pylint: disable=broad-except
        pr = ["raised %s: %s" % (type(e).__name__, e)]
      out["problems"] += ["%s: %s" % (dc.name, p) for p in pr]
    return out
  ops_spec, excs = decode_code(t)
  try:
    problems = check_code(ops_spec, excs)
  except Skip:
    problems = ["(skipped: POP_BLOCK without block)"]
  except Exception as e:  # pylint: disable=broad-except
    problems = ["raised %s: %s" % (type(e).__name__, e)]
  return {"instructions": ["%d: %s%s%s" % (i, KIND_NAMES[k], "" if tg is None else " -> %d" % tg,
                                           " (+cache)" if g else "")
                           for i, (k, tg, g) in enumerate(ops_spec)],
          "exception_table (start..end[+gap] => target, lasti)": excs,
          "problems": problems}


# ------------------------------------------------ h_real: real compiler output

# Programs generated from selectors are compiled by CPython (untraced set-up:
# pyc.compile_src + pycnite disassembly); every code object then goes through
# the real build_opcodes / add_pop_block_targets / compute_order (traced) and
# the same block-graph checks, plus link and jump-resolution checks that need
# no spec.  Async / generator constructs are not generated (outside the claim).

from pytype import config as _config          # noqa: E402
from pytype.pyc import pyc as _pyc            # noqa: E402
from pycnite import bytecode as _bytecode     # noqa: E402

_OPTS = _config.Options.create()

STMTS = [
    "pass",
    "x = foo(x)",
    "return x",
    "raise E(x)",
    "continue",
    "break",
    "if c:\n  x = 1\nelse:\n  x = 2",
    "if c:\n  return 1",
    "for i in y:\n  x = i",
    "while c:\n  x = foo(x)",
    "while True:\n  x = pop()",
    "with m as v:\n  x = v",
    "x = [i for i in y]",
    "x = a and b or c",
    "x = yield x",
    "del x",
    "assert c, x",
    "match x:\n  case 1:\n    y = 1\n  case _:\n    y = 2",
    "def g():\n  return x",
    "x = lambda: y",
    "x += 1",
    "for i in y:\n  if c:\n    break\nelse:\n  x = 0",
]
# A second statement list for try bodies that CPython cuts into several
# exception-table entries on one line (an inlined comprehension has its own
# cleanup entry) with jumps between the pieces (seed C16-6).
STMTS_SPLIT = [
    "x = [i for i in y]\nfor i in x:\n  if i:\n    break",
    "return x",
    "x = [i for i in y]",
    "for i in y:\n  if c:\n    break",
    "x = {i: v for i, v in y if c}",
    "raise E(x)",
    "x = foo([i for i in y], *a)",
    "try:\n  x = foo(x)\nfinally:\n  x = 0",
]
REALSET = param("C16_REALSET", quick=0, thorough=0)
if REALSET:
  STMTS = STMTS_SPLIT
WRAPS = [
    "%s",
    "try:\n%s\nexcept E:\n  x = 0",
    "try:\n%s\nfinally:\n  x = 0",
    "try:\n%s\nexcept E:\n  raise\nelse:\n  x = 3\nfinally:\n  x = 0",
    "with m:\n%s",
    "try:\n  try:\n%s\n  except K:\n    pass\nexcept E:\n  x = 0",
]
NSTMT = param("C16_NSTMT", quick=8, thorough=len(STMTS))
NWRAP = param("C16_NWRAP", quick=4, thorough=len(WRAPS))
REAL_SEL = Tuple[(int,) * 5]   # stmt1, stmt2, wrap, in_loop, tail


def real_ok(t):
  return all([inrange(t[0], 0, NSTMT), inrange(t[1], 0, NSTMT), inrange(t[2], 0, NWRAP),
              inrange(t[3], 0, 2), inrange(t[4], 0, 2)])


def real_key(t):
  return t[0] + 14 * (t[1] + 14 * (t[2] + 6 * (t[3] + 2 * t[4])))


def _indent(text, n):
  return "\n".join(" " * n + line for line in text.split("\n"))


def real_source(t):
  s1, s2 = STMTS[conc(t[0], NSTMT)], STMTS[conc(t[1], NSTMT)]
  wrap = WRAPS[conc(t[2], NWRAP)]
  in_loop = conc(t[3], 2)
  tail = conc(t[4], 2)
  body = s1 + "\n" + s2
  if (("continue" in body or "break" in body) and not in_loop):
    return None   # would not compile outside a loop
  extra = 2 if wrap.count("%s") and "  try:\n%s" in wrap else 0
  body = wrap % _indent(body, 2 + extra) if "%s" in wrap else body
  if in_loop:
    body = "for j in y:\n" + _indent(body, 2)
  src = "def f(x, y, c, m, a, b):\n" + _indent(body, 2) + "\n"
  if tail:
    src += "  return x\n"
  return src


@untraced
def disassemble(src):
  code = _pyc.compile_src(src, "t.py", _OPTS.python_version, _OPTS.python_exe, mode="exec")
  out = []

  def walk(dc):
    out.append(dc)
    for c in dc.children:
      walk(c)

  walk(_bytecode.dis_all(code))
  return out


def check_real(dc):
  problems = []
  ops = opcodes.build_opcodes(dc)
  n = len(ops)
  if [op.index for op in ops] != list(range(n)):
    problems.append("indices are not 0..n-1")
  for i, op in enumerate(ops):
    if op.prev is not (ops[i - 1] if i else None) or op.next is not (ops[i + 1] if i + 1 < n else None):
      problems.append("prev/next links inconsistent at %d" % i)
    if op.has_known_jump() and not isinstance(op, opcodes.SETUP_EXCEPT_311):
      if op.target is None:
        problems.append("jump %d (%s) has no resolved target" % (i, op.name))
      elif op.target is not ops[op.arg]:
        problems.append("jump %d: arg does not index its target" % i)
  pops = [op for op in ops if isinstance(op, opcodes.POP_BLOCK)]
  if problems:
    return problems
  return check_blocks(ops, pops)


def h_real(t: REAL_SEL) -> bool:
  """
  pre: real_ok(t)
  pre: shard_ok(real_key(t))
  post: check_post(_)
  """
  src = real_source(t)
  if src is None:
    return True
  problems = []
  try:
    dcs = disassemble(src)
  except Exception:  # pylint: disable=broad-except
    return True      # the generated text does not compile (e.g. `return` in a finally-guarded loop)
  for dc in dcs:
    INFO.clear()
    try:
      pr = check_real(dc)
    except Skip:
      # compiler output is block-structured: here the assertion is a failure
      # (blocks.process_code would raise and the code object gets no graph)
      pr = ["add_pop_block_targets fails with 'POP_BLOCK without block' on real compiler output"]
    if pr and kf_skip(kf_class(None, None, pr)):
      pr = []
    problems += ["%s: %s" % (dc.name, p) for p in pr]
  record("R %r N" % (src,))
  return not problems
