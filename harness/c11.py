"""C11 — stub optimisation only widens and is idempotent, under CrossHair.

The real optimize.Optimize runs traced on a pytd unit decoded from selectors.
Oracle: a denotational `admits(type, value)` over a finite value universe,
written independently of optimize.py.  (The admitted SETS are computed by an
untraced helper on the concrete before/after types: harness bookkeeping.)

h_const: one constant, one parameter and one return position holding the same
  type tree (depth 2: leaves int, bool, str, NoneType, object, Any, nothing;
  list[.], tuple[., ...], tuple[...], Callable, Union) under each option set.
h_func: a function with up to NSIG signatures (one or two parameters, optional
  mutated type, optional exception) -- covers signature merging; compared as a
  relation over (argument values, returned value).
"""

from typing import Tuple

from vlib.prelude import (  # noqa
    record, shard_ok, check_post, TIER, param, conc, inrange, all_inrange,
    untraced)

from harness import typegen as G

from pytype.pytd import optimize
from pytype.pytd import pytd
from pytype.pytd import pytd_utils

# ------------------------------------------------------------ class universe

OBJ, INT, BOOL, STR, NONE = ("builtins.object", "builtins.int", "builtins.bool",
                             "builtins.str", "builtins.NoneType")
GBASE, GSUB, GFIXED = "m.Base", "m.Sub", "m.Fixed"
SUPER = {OBJ: None, INT: OBJ, BOOL: INT, STR: OBJ, NONE: OBJ,
         "builtins.list": OBJ, "builtins.tuple": OBJ, "typing.Callable": OBJ,
         # user generics: class Base(Generic[T]); class Sub(Base[T]) forwards its
         # parameter; class Fixed(Base[int], Generic[T]) fixes the base's parameter
         GBASE: OBJ, GSUB: GBASE, GFIXED: GBASE}
_T = pytd.TypeParameter("T")


def _mk_class(name):
  if SUPER[name] is None:
    bases = ()
  elif name == GSUB:
    bases = (pytd.GenericType(pytd.ClassType(GBASE), (_T,)),)
  elif name == GFIXED:
    bases = (pytd.GenericType(pytd.ClassType(GBASE), (pytd.ClassType(INT),)),)
  else:
    bases = (pytd.ClassType(SUPER[name]),)
  template = (pytd.TemplateItem(_T),) if name in (GBASE, GSUB, GFIXED) else ()
  return pytd.Class(name, (), bases, (), (), (), (), None, template)


DEPS = pytd.TypeDeclUnit(
    "builtins", (), (), tuple(_mk_class(n) for n in SUPER), (), ())

def _g(cls, param):
  return pytd.GenericType(pytd.ClassType(cls), (pytd.ClassType(param),))


GENERIC = param("C11_GENERIC", quick=0, thorough=0)   # 1: leaves are user generic classes
if GENERIC:
  LEAVES = [_g(GBASE, INT), _g(GBASE, STR), _g(GSUB, STR), _g(GFIXED, STR), _g(GSUB, INT),
            pytd.ClassType(INT), pytd.ClassType(GBASE)]
  LEAF_NAMES = ["Base[int]", "Base[str]", "Sub[str]", "Fixed[str]", "Sub[int]", "int", "Base"]
else:
  LEAVES = [pytd.ClassType(INT), pytd.ClassType(BOOL), pytd.ClassType(STR),
            pytd.ClassType(NONE), pytd.ClassType(OBJ), pytd.AnythingType(),
            pytd.NothingType()]
  LEAF_NAMES = ["int", "bool", "str", "None", "object", "Any", "nothing"]
NL = len(LEAVES)


def mk_class(name):
  return pytd.ClassType(name)


# ------------------------------------------------------------ value universe

class Fn:  # the callable value
  def __repr__(self):
    return "<fn>"


class Obj:  # a plain object() instance
  def __repr__(self):
    return "<obj>"


class GenInst:
  """Instance of a user generic class: its own parameter's element and the
  element seen through Base (they differ for Fixed, whose base is Base[int])."""

  def __init__(self, cls, elem, base_elem):
    self.cls, self.elem, self.base_elem = cls, elem, base_elem

  def __repr__(self):
    return "<%s of %r>" % (self.cls, self.elem)


GEN_VALUES = [GenInst(GBASE, 1, 1), GenInst(GBASE, "s", "s"), GenInst(GSUB, "s", "s"),
              GenInst(GSUB, 1, 1), GenInst(GFIXED, "s", 1), GenInst(GFIXED, 1, 1)]
BASE_VALUES = [Obj(), 1, True, "s", None]
FN = Fn()


def _containers(mk, base):
  out = [mk(())]
  out += [mk((x,)) for x in base]
  out += [mk((x, y)) for x in base for y in base]
  return out


VALUES = (BASE_VALUES + _containers(list, BASE_VALUES) +
          _containers(tuple, BASE_VALUES) + [FN] + GEN_VALUES)
SMALL_VALUES = BASE_VALUES + [[], [1], ["s"], (), (1,), (1, "s"), FN]


def class_of(v):
  if isinstance(v, Obj):
    return OBJ
  if v is None:
    return NONE
  if isinstance(v, bool):
    return BOOL
  if isinstance(v, int):
    return INT
  if isinstance(v, str):
    return STR
  if isinstance(v, list):
    return "builtins.list"
  if isinstance(v, tuple):
    return "builtins.tuple"
  if isinstance(v, Fn):
    return "typing.Callable"
  if isinstance(v, GenInst):
    return v.cls
  raise AssertionError(v)


def is_subclass(c, d):
  while c is not None:
    if c == d:
      return True
    c = SUPER[c]
  return False


class UnknownType(Exception):
  pass


def admits(t, v):
  """Does type t admit value v?  (independent of optimize.py)"""
  if isinstance(t, pytd.AnythingType):
    return True
  if isinstance(t, pytd.NothingType):
    return False
  if isinstance(t, pytd.UnionType):
    return any(admits(m, v) for m in t.type_list)
  if isinstance(t, pytd.CallableType):
    return isinstance(v, Fn)
  if isinstance(t, pytd.TupleType):
    return (isinstance(v, tuple) and len(v) == len(t.parameters) and
            all(admits(p, x) for p, x in zip(t.parameters, v)))
  if isinstance(t, pytd.GenericType):
    base = t.base_type.name
    if base == "builtins.list":
      return isinstance(v, list) and all(admits(t.parameters[0], x) for x in v)
    if base == "builtins.tuple":
      return isinstance(v, tuple) and all(admits(t.parameters[0], x) for x in v)
    if base == "typing.Callable":
      return isinstance(v, Fn)
    if base == GBASE:
      return isinstance(v, GenInst) and admits(t.parameters[0], v.base_elem)
    if base in (GSUB, GFIXED):
      return isinstance(v, GenInst) and v.cls == base and admits(t.parameters[0], v.elem)
    raise UnknownType(base)
  if isinstance(t, (pytd.ClassType, pytd.NamedType)):
    if t.name not in SUPER:
      raise UnknownType(t.name)
    return is_subclass(class_of(v), t.name)
  raise UnknownType(type(t).__name__)


@untraced
def admitted(t, values):
  return frozenset(i for i, v in enumerate(values) if admits(t, v))


# ---------------------------------------------------------------- option sets

OPTIONS = [
    ("lossless+deps", dict(deps=DEPS, lossy=False, use_abcs=False, max_union=7,
                           remove_mutable=False, can_do_lookup=False)),
    ("lossless", dict(deps=None, lossy=False, use_abcs=False, max_union=7,
                      remove_mutable=False, can_do_lookup=False)),
    ("max_union=2", dict(deps=DEPS, lossy=False, use_abcs=False, max_union=2,
                         remove_mutable=False, can_do_lookup=False)),
    ("lossy", dict(deps=DEPS, lossy=True, use_abcs=False, max_union=7,
                   remove_mutable=False, can_do_lookup=False)),
    ("remove_mutable", dict(deps=DEPS, lossy=False, use_abcs=False, max_union=7,
                            remove_mutable=True, can_do_lookup=False)),
    ("max_union=0", dict(deps=None, lossy=False, use_abcs=False, max_union=0,
                         remove_mutable=False, can_do_lookup=False)),
]
NOPT = param("C11_NOPT", quick=3, thorough=6)
LOSSLESS = ("lossless+deps", "lossless", "max_union=0")

# -------------------------------------------------------------------- h_const

DEPTH = param("C11_DEPTH", quick=2, thorough=2)
COMP = param("C11_COMP", quick=5, thorough=5)
CNL = param("C11_NLEAVES", quick=NL, thorough=NL)  # both leaf sets have 7 entries
ROOT_UNION = param("C11_ROOT_UNION", quick=0, thorough=0)  # >0: root is a union of that many containers
NN = G.nodes(DEPTH)
CONST_SEL = Tuple[(int,) * (2 * NN + 1)]


def const_ok(t):
  return all([G.tree_ok(t, 0, DEPTH, CNL, COMP, root_union=ROOT_UNION,
                        mid_no_union=bool(ROOT_UNION)),
              inrange(t[2 * NN], 0, NOPT)])


def const_key(t):
  return t[0] + 16 * (t[1] + 3 * (t[2] + 16 * (t[4] + 16 * (t[2 * NN] + 6 * (t[3] + 3 * t[5])))))


def unit_for(ty):
  """x: T;  def f(a: T) -> T: ..."""
  K = pytd.ParameterKind
  sig = pytd.Signature((pytd.Parameter("a", ty, K.REGULAR, False, None),),
                       None, None, ty, (), ())
  f = pytd.Function("m.f", (sig,), pytd.MethodKind.METHOD)
  return pytd.TypeDeclUnit("m", (pytd.Constant("m.x", ty),), (), (), (f,), ())


def is_plain_class_union(d):
  """A union of plain classes (no container, no Any/object/nothing)."""
  if d[0] != G.K_UNION or GENERIC:
    return False
  return all(c[0] == "leaf" and c[1] < 4 for c in d[1])


def h_const(t: CONST_SEL) -> bool:
  """
  pre: const_ok(t)
  pre: shard_ok(const_key(t))
  post: check_post(_)
  """
  d = G.decode(t, 0, DEPTH, CNL, COMP)
  oname, kw = OPTIONS[conc(t[2 * NN], NOPT)]
  ty = G.build(d, LEAVES, mk_class)
  unit = unit_for(ty)
  opt = optimize.Optimize(unit, **kw)
  again = optimize.Optimize(opt, **kw)
  ok = [pytd_utils.ASTeq(again, opt)]
  before = admitted(ty, VALUES)
  c_after = opt.Lookup("m.x").type
  (sig,) = opt.Lookup("m.f").signatures
  for pos in (c_after, sig.params[0].type, sig.return_type):
    after = admitted(pos, VALUES)
    ok.append(before <= after)
    if oname in LOSSLESS and is_plain_class_union(d):
      ok.append(before == after)
  record("C %s %s %s" % (oname, G.show(d, LEAF_NAMES),
                         "N" if d[0] != "leaf" else "T"))
  return all(ok)


# --------------------------------------------------------------------- h_func

FTYPES = [pytd.ClassType(INT), pytd.ClassType(BOOL), pytd.ClassType(STR),
          pytd.ClassType(NONE), pytd.ClassType(OBJ), pytd.AnythingType(),
          pytd.GenericType(pytd.ClassType("builtins.list"), (pytd.ClassType(INT),)),
          pytd.UnionType((pytd.ClassType(INT), pytd.ClassType(STR))),
          pytd.GenericType(pytd.ClassType("builtins.list"), (pytd.ClassType(STR),)),
          pytd.TupleType(pytd.ClassType("builtins.tuple"),
                         (pytd.ClassType(INT), pytd.ClassType(STR))),
          pytd.TupleType(pytd.ClassType("builtins.tuple"), ())]
FNAMES = ["int", "bool", "str", "None", "object", "Any", "list[int]",
          "Union[int,str]", "list[str]", "tuple[int,str]", "tuple[()]"]
NSIG = param("C11_NSIG", quick=2, thorough=3)
NPT = param("C11_NPTYPES", quick=4, thorough=5)    # parameter types: first NPT of FTYPES
NRT = param("C11_NRTYPES", quick=8, thorough=11)   # return types
NPAR = param("C11_NPAR", quick=1, thorough=1)
NMUT = param("C11_NMUT", quick=2, thorough=3)   # mutated-type choices (0 = none)
NEXC = param("C11_NEXC", quick=2, thorough=3)   # exception choices (0 = none)
# per signature: present, p0, p1, ret, mutated(0 none / 1+idx), exc
SW = 6
FUNC_SEL = Tuple[(int,) * (SW * NSIG + 1)]


def func_ok(t):
  conds = [inrange(t[SW * NSIG], 0, NOPT)]
  for i in range(NSIG):
    pres, p0, p1, ret, mut, exc = t[SW * i:SW * i + SW]
    conds += [
        (pres == 1) if i == 0 else inrange(pres, 0, 2),
        any([all([pres == 1, inrange(p0, 0, NPT), inrange(ret, 0, NRT),
                  inrange(p1, 0, NPT) if NPAR == 2 else p1 == 0,
                  inrange(mut, 0, NMUT), inrange(exc, 0, NEXC)]),
             all([pres == 0, p0 == 0, p1 == 0, ret == 0, mut == 0, exc == 0])]),
    ]
    if i:
      conds.append(any([t[SW * (i - 1)] == 1, pres == 0]))  # no gaps
  return all(conds)


def func_key(t):
  key = t[SW * NSIG]
  for i in range(NSIG):
    key = key * 2 + t[SW * i]
    key = key * 5 + t[SW * i + 1]
    key = key * 11 + t[SW * i + 3]
  return key


EXCS = [None, pytd.ClassType("builtins.ValueError"), pytd.ClassType("builtins.KeyError")]


def decode_func(t):
  sigs = []
  for i in range(NSIG):
    if conc(t[SW * i], 2) == 0:
      break
    p0 = conc(t[SW * i + 1], NPT)
    p1 = conc(t[SW * i + 2], NPT) if NPAR == 2 else None
    ret = conc(t[SW * i + 3], NRT)
    mut = conc(t[SW * i + 4], NMUT)
    exc = conc(t[SW * i + 5], NEXC)
    sigs.append((p0, p1, ret, mut, exc))
  return sigs


def build_func(sigs):
  K = pytd.ParameterKind
  out = []
  for p0, p1, ret, mut, exc in sigs:
    mutated = None if mut == 0 else FTYPES[6 if mut == 1 else 8]
    params = [pytd.Parameter("a", FTYPES[p0], K.REGULAR, False, mutated)]
    if p1 is not None:
      params.append(pytd.Parameter("b", FTYPES[p1], K.REGULAR, False, None))
    excs = () if exc == 0 else (EXCS[exc],)
    out.append(pytd.Signature(tuple(params), None, None, FTYPES[ret], excs, ()))
  f = pytd.Function("m.f", tuple(out), pytd.MethodKind.METHOD)
  return pytd.TypeDeclUnit("m", (), (), (), (f,), ())


@untraced
def call_relation(func):
  """{(arg value indices..., returned value index)} admitted by some signature."""
  rel = set()
  n = len(SMALL_VALUES)
  for sig in func.signatures:
    args = [admitted(p.type, SMALL_VALUES) for p in sig.params]
    rets = admitted(sig.return_type, SMALL_VALUES)
    combos = [()]
    for a in args:
      combos = [c + (i,) for c in combos for i in a]
    for c in combos:
      for r in rets:
        rel.add(c + (r,))
  del n
  return rel


@untraced
def exception_names(func):
  return {e.name for sig in func.signatures for e in sig.exceptions}


def h_func(t: FUNC_SEL) -> bool:
  """
  pre: func_ok(t)
  pre: shard_ok(func_key(t))
  post: check_post(_)
  """
  sigs = decode_func(t)
  oname, kw = OPTIONS[conc(t[SW * NSIG], NOPT)]
  unit = build_func(sigs)
  opt = optimize.Optimize(unit, **kw)
  again = optimize.Optimize(opt, **kw)
  f0, f1 = unit.Lookup("m.f"), opt.Lookup("m.f")
  ok = [pytd_utils.ASTeq(again, opt),
        call_relation(f0) <= call_relation(f1),
        exception_names(f0) <= exception_names(f1),
        len(f1.signatures) <= len(f0.signatures)]
  record("F %s %s %s" % (
      oname, "; ".join("(%s%s%s)->%s%s" % (
          FNAMES[p0], "" if p1 is None else "," + FNAMES[p1],
          "" if mut == 0 else " mut%d" % mut, FNAMES[ret], "" if exc == 0 else " raises%d" % exc)
                       for p0, p1, ret, mut, exc in sigs),
      "N" if len(sigs) > 1 else "T"))
  return all(ok)


def explain(fn, t):
  if fn == "h_const":
    d = G.decode(t, 0, DEPTH, CNL, COMP)
    oname, kw = OPTIONS[t[2 * NN]]
    ty = G.build(d, LEAVES, mk_class)
    opt = optimize.Optimize(unit_for(ty), **kw)
    return {"options": oname, "type": G.show(d, LEAF_NAMES),
            "before": pytd_utils.Print(unit_for(ty)), "after": pytd_utils.Print(opt),
            "again": pytd_utils.Print(optimize.Optimize(opt, **kw)),
            "values lost (constant)": [repr(VALUES[i]) for i in sorted(
                admitted(ty, VALUES) - admitted(opt.Lookup("m.x").type, VALUES))][:10]}
  sigs = decode_func(t)
  oname, kw = OPTIONS[t[SW * NSIG]]
  unit = build_func(sigs)
  opt = optimize.Optimize(unit, **kw)
  lost = sorted(call_relation(unit.Lookup("m.f")) - call_relation(opt.Lookup("m.f")))[:5]
  return {"options": oname, "before": pytd_utils.Print(unit),
          "after": pytd_utils.Print(opt),
          "again": pytd_utils.Print(optimize.Optimize(opt, **kw)),
          "calls lost (args..., ret)": [[repr(SMALL_VALUES[i]) for i in c] for c in lost]}
