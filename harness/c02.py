"""C02 — annotation enforcement at the three sites, matcher level, under CrossHair.

Set-up (once per worker, at import time, outside the tracer): ONE program is
run through the real VM.  It defines a small class hierarchy (A, B(A), C), one
function `def f<i>(x: <annotation i>): pass` per annotation of the bounded type
grammar and one module constant `v<j> = <ground expression j>` per value of the
value grammar.  The abstract values of the annotations are taken from the
functions' signatures and the abstract values of the expressions from the
module's globals, i.e. both are exactly what the VM builds for such source.

Traced part (per path): a pair (annotation i, value j) chosen by two symbolic
selectors goes through the three enforcement sites' real code:
  argument:    InterpreterFunction.match_args -> SignedFunction._match_args_sequentially
               -> matcher.compute_matches        (WrongArgTypes <=> [wrong-arg-types])
  return:      CallTracer._check_return -> compute_one_match -> errorlog.bad_return_type
  assignment:  Context.check_annotation_type_mismatch -> compute_one_match
               -> errorlog.annotation_type_mismatch
all of matcher.py running inside the tracer.

Oracle: member(runtime value, annotation spec), an independent 60-line
membership test on the run-time value obtained by evaluating the same
expression under CPython.

Structural inputs only: after decoding nothing stays symbolic, so the engine's
role is the certified exhaustive walk of the bounded (annotation, value) space.
"""

from typing import Tuple

from vlib.prelude import (  # noqa
    record, shard_ok, check_post, TIER, param, conc, inrange, all_inrange,
    untraced, kf_skip)

from pytype import config
from pytype import context
from pytype import load_pytd
from pytype.abstract import function
from pytype.errors import error_types

LEVEL = param("C02_LEVEL", quick=1, thorough=2)   # 1: depth <= 2 core grammar, 2: + depth-3 forms
PART = param("C02_PART", quick=0, thorough=0)     # 0: all annotations; 1/2: first/second half

# ---------------------------------------------------------------------------
# Type grammar: spec trees.  ("int",) ... scalars; ("List", T) ...
SCALARS = ["int", "float", "complex", "bool", "str", "bytes", "None", "object",
           "Any", "A", "B", "C"]
EXTRA_SCALARS = ["HasM", "MyInt"]
ARG1 = ["int", "float", "str", "A", "object"]


def _grammar(level):
  if level == 0:   # directed runs for the recorded findings
    return [("bool",), ("List", ("int",)), ("Iterable", ("float",)),
            ("Optional", ("List", ("int",))), ("int",), ("Tuple2", ("int",), ("str",)),
            ("Callable2", ("int",), ("str",)), ("Callable1", ("int",))]
  g = [(s,) for s in SCALARS]
  full = level >= 1
  for c in ("List", "Sequence", "Iterable", "TupleN", "Set", "Optional"):
    for t in (ARG1 if full else ARG1[:4]):
      g.append((c, (t,)))
  for t in ["int", "float", "A", "B", "object", "Any"]:
    g.append(("Type", (t,)))
  t2 = ["int", "str", "float", "A"] if full else ["int", "str", "A"]
  for t in t2:
    for u in t2:
      g.append(("Tuple2", (t,), (u,)))
  for c in ("Dict", "Mapping"):
    for k in ["str", "int"]:
      for v in ["int", "float", "str"]:
        g.append((c, (k,), (v,)))
  us = ["int", "str", "None", "A", "C", "float"] if full else ["int", "str", "None", "A", "C"]
  for i, t in enumerate(us):
    for u in us[i + 1:]:
      g.append(("Union", (t,), (u,)))
  g += [("CallableAny",), ("Callable0",), ("Callable1", ("int",)),
        ("Callable2", ("int",), ("str",))]
  if level >= 2:
    g += [
        ("List", ("Optional", ("int",))), ("Optional", ("List", ("int",))),
        ("List", ("Tuple2", ("int",), ("str",))),
        ("Dict", ("str",), ("List", ("int",))),
        ("Union", ("List", ("int",)), ("TupleN", ("str",))),
        ("Sequence", ("Sequence", ("int",))),
        ("TupleN", ("Union", ("int",), ("str",))),
        ("Tuple2", ("Optional", ("int",)), ("List", ("str",))),
        ("Mapping", ("str",), ("Sequence", ("int",))),
        ("Optional", ("Tuple2", ("int",), ("int",))),
        ("List", ("List", ("int",))), ("Set", ("Tuple2", ("int",), ("str",))),
        ("Iterable", ("Tuple2", ("str",), ("int",))),
        ("Union", ("A",), ("List", ("B",))),
        ("Type", ("Union", ("A",), ("C",))),
        ("Optional", ("Type", ("A",))),
        ("List", ("Type", ("A",))),
        ("Tuple1", ("int",)), ("Tuple3", ("int",), ("str",), ("float",)),
        ("Tuple0",),
    ]
  if level >= 3:
    g += [
        ("HasM",), ("MyInt",), ("Optional", ("HasM",)), ("List", ("HasM",)),
        ("Iterable", ("Any",)), ("Sequence", ("object",)), ("Dict", ("str",), ("Any",)),
        ("TupleN", ("Any",)), ("List", ("Union", ("int",), ("str",))),
        ("Optional", ("Union", ("int",), ("str",))),
        ("Union", ("int",), ("str",), ("None",)), ("Type", ("C",)), ("Type", ("MyInt",)),
        ("FrozenSet", ("int",)), ("Mapping", ("str",), ("Mapping", ("str",), ("int",))),
        ("List", ("complex",)), ("Dict", ("str",), ("Optional", ("int",))),
        ("Union", ("Type", ("A",)), ("Type", ("C",))), ("Tuple2", ("float",), ("complex",)),
        ("Set", ("float",)), ("Sequence", ("Optional", ("A",))),
        ("Callable1", ("str",)), ("Union", ("CallableAny",), ("int",)),
        ("List", ("TupleN", ("int",))), ("TupleN", ("TupleN", ("int",))),
    ]
  return g


def spell(t):
  """Source text of an annotation spec."""
  k = t[0]
  if k in SCALARS or k in EXTRA_SCALARS:
    return k
  a = [spell(x) for x in t[1:]]
  if k == "TupleN":
    return "Tuple[%s, ...]" % a[0]
  if k in ("Tuple2", "Tuple1", "Tuple3"):
    return "Tuple[%s]" % ", ".join(a)
  if k == "Tuple0":
    return "Tuple[()]"
  if k == "CallableAny":
    return "Callable[..., Any]"
  if k in ("Callable0", "Callable1", "Callable2"):
    return "Callable[[%s], Any]" % ", ".join(a)
  return "%s[%s]" % (k, ", ".join(a))


# Value grammar: (expression text, tags)
VALUES = [
    "1", "True", "1.5", "2j", "'s'", "b'b'", "None", "A()", "B()", "C()",
    "[]", "[1]", "[True]", "[1.5]", "['s']", "[1, 's']", "[B()]", "[None]",
    "[1, None]", "[[1]]", "[(1, 's')]",
    "()", "(1,)", "(1, 's')", "('s', 1)", "(1, 2)", "(1, 2, 3)", "(B(), 1)",
    "(1.5, 'x')", "(None, ['s'])", "(1, 's', 1.5)",
    "{}", "{'s': 1}", "{1: 's'}", "{'s': 1.5}", "{'s': [1]}", "{'s': (1, 2)}",
    "{1}", "{'s'}", "{(1, 's')}",
    "A", "B", "C", "int", "bool",
    "g0", "g1", "g2", "g1d", "gk", "gkr",
]
if LEVEL >= 3:
  VALUES += [
      "MyInt(3)", "frozenset({1})", "{'a': {'b': 1}}", "[(1, 2)]", "(1.5,)",
      "[MyInt(1)]", "WithM()", "[WithM()]", "MyInt", "{'s': None}", "{1.5}",
      "(2j, 1)", "[[]]", "((1, 2), (3,))", "[A(), None]",
  ]

PRELUDE = """\
from typing import Any, Callable, Dict, FrozenSet, Iterable, List, Mapping, Optional, Protocol, Sequence, Set, Tuple, Type, Union
class A: pass
class B(A): pass
class C: pass
class MyInt(int): pass
class HasM(Protocol):
  def m(self) -> int: ...
class WithM:
  def m(self) -> int: return 1
def g0(): return 1
def g1(x): return 1
def g2(x, y): return 1
def g1d(x, y=0): return 1
def gk(a, b, *, k=0): return 1
def gkr(a, *, k): return 1
"""

GRAMMAR = _grammar(LEVEL)
if PART:
  _h = len(GRAMMAR) // 2
  GRAMMAR = GRAMMAR[:_h] if PART == 1 else GRAMMAR[_h:]
NA = len(GRAMMAR)
NV = len(VALUES)

# ---------------------------------------------------------------------------
# Run-time values and the membership oracle (independent of pytype).
_NS = {}
exec(PRELUDE, _NS)  # pylint: disable=exec-used
RUNTIME = [eval(e, _NS) for e in VALUES]  # pylint: disable=eval-used
_CLS = {"int": int, "float": float, "complex": complex, "bool": bool, "str": str,
        "bytes": bytes, "object": object, "A": _NS["A"], "B": _NS["B"],
        "C": _NS["C"], "MyInt": _NS["MyInt"]}


def _arity_ok(v, n):
  """Can v be called with n positional arguments?"""
  import inspect  # pylint: disable=g-import-not-at-top
  try:
    sig = inspect.signature(v)
  except (TypeError, ValueError):
    return None
  try:
    sig.bind(*([0] * n))
    return True
  except TypeError:
    return False


def member(v, t):
  """Is run-time value v an inhabitant of annotation spec t (PEP 484)?"""
  k = t[0]
  if k in ("Any", "object"):
    return True
  if k == "None":
    return v is None
  if k == "float":
    return isinstance(v, (int, float))
  if k == "complex":
    return isinstance(v, (int, float, complex))
  if k in _CLS:
    return isinstance(v, _CLS[k])
  if k == "HasM":   # structural: an instance whose class defines a method m
    return callable(getattr(type(v), "m", None)) and not isinstance(v, type)
  if k == "FrozenSet":
    return isinstance(v, frozenset) and all(member(e, t[1]) for e in v)
  if k == "List":
    return isinstance(v, list) and all(member(e, t[1]) for e in v)
  if k == "Set":
    return isinstance(v, set) and all(member(e, t[1]) for e in v)
  if k == "TupleN":
    return isinstance(v, tuple) and all(member(e, t[1]) for e in v)
  if k in ("Tuple0", "Tuple1", "Tuple2", "Tuple3"):
    return (isinstance(v, tuple) and len(v) == len(t) - 1 and
            all(member(e, u) for e, u in zip(v, t[1:])))
  if k == "Sequence":
    return isinstance(v, (list, tuple, str, bytes)) and all(member(e, t[1]) for e in v)
  if k == "Iterable":
    return (isinstance(v, (list, tuple, set, frozenset, dict, str, bytes)) and
            all(member(e, t[1]) for e in v))
  if k == "Dict" or k == "Mapping":
    return isinstance(v, dict) and all(
        member(a, t[1]) and member(b, t[2]) for a, b in v.items())
  if k == "Optional":
    return v is None or member(v, t[1])
  if k == "Union":
    return any(member(v, u) for u in t[1:])
  if k == "Type":
    if not isinstance(v, type):
      return False
    return _subclass(v, t[1])
  if k == "CallableAny":
    return callable(v)
  if k in ("Callable0", "Callable1", "Callable2"):
    return callable(v) and _arity_ok(v, len(t) - 1)
  raise AssertionError(t)


def _subclass(c, t):
  if t[0] in ("Any", "object"):
    return True
  if t[0] == "Union":
    return any(_subclass(c, u) for u in t[1:])
  if t[0] == "float":
    return issubclass(c, (int, float))
  return issubclass(c, _CLS[t[0]])


def excluded(v, t):
  """Pairs outside the claim (stated in DESIGN.md): returns a reason or None."""
  k = t[0]
  if isinstance(v, (str, bytes)) and _mentions(t, ("Sequence", "Iterable")):
    # pytype deliberately does not treat str as a Sequence/Iterable of str
    # (documented: FAQ "noniterable strings"); bytes alike.
    return "str-as-iterable"
  if k.startswith("Callable") and isinstance(v, type):
    return "class-as-callable"
  if k.startswith("Callable") and callable(v) and _arity_ok(v, 0) is None:
    return "no-signature"
  return None


def _mentions(t, names):
  return t[0] in names or any(_mentions(u, names) for u in t[1:] if isinstance(u, tuple))


# ---------------------------------------------------------------------------
# Set-up: one real VM run.
def _build_program():
  lines = [PRELUDE]
  for i, t in enumerate(GRAMMAR):
    lines.append("def f%d(x: %s): pass" % (i, spell(t)))
    lines.append("def k%d(a=0, *, x: %s): pass" % (i, spell(t)))
    lines.append("def s%d(a=0, *x: %s): pass" % (i, spell(t)))
    lines.append("def d%d(a=0, **x: %s): pass" % (i, spell(t)))
  for j, e in enumerate(VALUES):
    lines.append("v%d = %s" % (j, e))
  return "\n".join(lines) + "\n"


PROGRAM = _build_program()
_options = config.Options.create(python_version=(3, 12))
_loader = load_pytd.create_loader(_options)
CTX = context.Context(_options, _loader, src=PROGRAM)
NODE, _DEFS = CTX.vm.run_program(PROGRAM, "", maximum_depth=3)
_SETUP_ERRORS = [(e.name, e.line) for e in CTX.errorlog]
assert not _SETUP_ERRORS, _SETUP_ERRORS
_G = CTX.vm.frames[0].f_globals if CTX.vm.frames else None


def _glob(name):
  for d in (_DEFS,):
    if hasattr(d, "get") and d.get(name) is not None:
      return d[name]
  raise KeyError(name)


def _lookup_globals():
  """name -> Variable for the module's globals after the run."""
  if isinstance(_DEFS, dict):
    return _DEFS
  members = getattr(_DEFS, "members", None)
  if members is not None:
    return members
  raise AssertionError(type(_DEFS))


_GL = _lookup_globals()
FUNCS = []
KFUNCS, SFUNCS, DFUNCS = [], [], []
ANNS = []
for _i in range(NA):
  (_f,) = _GL["f%d" % _i].data
  FUNCS.append(_f)
  ANNS.append(_f.signature.annotations["x"])
  for _l, _p in ((KFUNCS, "k"), (SFUNCS, "s"), (DFUNCS, "d")):
    (_f,) = _GL["%s%d" % (_p, _i)].data
    _l.append(_f)
VARS = [_GL["v%d" % _j] for _j in range(NV)]
ZERO = CTX.convert.constant_to_var(0, node=NODE)
for _v in VARS:
  assert len(_v.bindings) == 1, _v

# get_type_key builds a set of (name, key) pairs and hashes it; under the
# tracer a `set()` created in traced code is CrossHair's symbolic-shell set and
# hashing it deep-copies the whole abstract object graph (RecursionError).  The
# function is a pure cache-key computation over concrete data: real code, run
# outside the tracer (listed as a cut in the evidence).
from pytype.abstract import _base as _abs_base  # pylint: disable=g-import-not-at-top
from pytype.abstract import _instance_base  # pylint: disable=g-import-not-at-top
for _c in (_abs_base.BaseValue, _instance_base.SimpleValue, _instance_base.Instance):
  _c.get_type_key = untraced(_c.__dict__["get_type_key"])

# Error objects and log entries format their arguments when constructed
# (pretty-printing of types and values, traceback strings): real code, but run
# outside the tracer -- formatting is not the subject; that an error IS
# constructed / logged is what the postcondition observes.
CTX.errorlog.bad_return_type = untraced(CTX.errorlog.bad_return_type)
CTX.errorlog.annotation_type_mismatch = untraced(CTX.errorlog.annotation_type_mismatch)
error_types.InvalidParameters.__init__ = untraced(error_types.InvalidParameters.__init__)

# `set.union(*groups)` (matcher._TypeParams.add_mutually_exclusive_groups) is
# called with sets created in traced code, which are CrossHair's shell sets and
# not `set` instances: the unbound-descriptor call raises a TypeError that
# CPython never raises.  matcher.py's own name `set` is shadowed by a callable
# that builds ordinary sets and whose `union` accepts any set-like operands.
from pytype import matcher as _matcher  # pylint: disable=g-import-not-at-top


def _set(*a):
  return set(*a)


def _set_union(first, *rest):
  out = set(first)
  for r in rest:
    out |= set(r)
  return out


_set.union = _set_union
_matcher.set = _set

SEL = Tuple[int, int]


def sel_ok(s):
  return all([inrange(s[0], 0, NA), inrange(s[1], 0, NV)])


def shard_key(s):
  return s[0] * NV + s[1]


def sites(i, j):
  """(argument error?, return error?, assignment error?) from the real code."""
  f, ann, var = FUNCS[i], ANNS[i], VARS[j]
  # the argument site in its five call forms: positional, by keyword,
  # keyword-only parameter, collected by *x: T, collected by **x: T
  arg_errs = []
  for fn, args in (
      (f, function.Args(posargs=(var,))),
      (f, function.Args(posargs=(), namedargs={"x": var})),
      (KFUNCS[i], function.Args(posargs=(), namedargs={"x": var})),
      (SFUNCS[i], function.Args(posargs=(ZERO, var))),
      (DFUNCS[i], function.Args(posargs=(), namedargs={"y": var}))):
    try:
      fn.match_args(NODE, args, None, False)
      arg_errs.append(False)
    except error_types.FailedFunctionCall:
      arg_errs.append(True)
  arg_err = arg_errs[0] if len(set(arg_errs)) == 1 else tuple(arg_errs)
  n0 = len(CTX.errorlog)
  ok = CTX.vm._check_return(NODE, var, ann)  # pylint: disable=protected-access
  n1 = len(CTX.errorlog)
  ret_err = (not ok, n1 - n0)
  CTX.check_annotation_type_mismatch(NODE, "x", ann, var, (), True)  # allow_none=True: as vm._apply_annotation calls it
  n2 = len(CTX.errorlog)
  return arg_err, ret_err, n2 - n1


def _warm_up():
  """pytype loads classes, protocols and attribute tables lazily the first
  time a match touches them; traced, that one-time conversion machinery costs
  seconds per path.  Every pair of this shard is therefore run once natively at
  import time and the results are thrown away: the verdicts come only from the
  traced runs below, which execute the same real code on warm caches (as any
  analysis of a real program does after its first few statements)."""
  from vlib import prelude  # pylint: disable=g-import-not-at-top
  for i in range(NA):
    for j in range(NV):
      if (i * NV + j) % prelude.SHARD_K == prelude.SHARD_R:
        if excluded(RUNTIME[j], GRAMMAR[i]) is None:
          try:
            sites(i, j)
          except Exception:  # pylint: disable=broad-except
            pass


_warm_up()


def h_enforce(s: SEL) -> bool:
  """
  pre: sel_ok(s)
  pre: shard_ok(shard_key(s))
  post: check_post(_)
  """
  i = conc(s[0], NA)
  j = conc(s[1], NV)
  t, v = GRAMMAR[i], RUNTIME[j]
  if excluded(v, t) is not None:
    return True
  want_err = not member(v, t)
  arg_err, (ret_bad, ret_n), asg_n = sites(i, j)
  ok = True
  # each site is compared separately; a site whose (input, site) falls into a
  # recorded-finding class is skipped by the main run and is the only thing
  # the directed run looks at
  if not kf_skip(kf_class(t, v, "arg")):
    ok = ok and arg_err == want_err
  if not kf_skip(kf_class(t, v, "ret")):
    ok = ok and ret_bad == want_err and (ret_n > 0) == want_err
  if not kf_skip(kf_class(t, v, "asg")):
    ok = ok and (asg_n > 0) == want_err
  record("E %s | %s %s" % (spell(t), VALUES[j], "N" if want_err else "T"))
  return ok


def _hetero(v):
  """A mutable container literal whose elements are of more than one type
  (pytype gives its element parameter several bindings)."""
  if isinstance(v, (list, set, frozenset)):
    return len({type(e) for e in v}) > 1 or any(_hetero(e) for e in v)
  if isinstance(v, dict):
    return (len({type(e) for e in v}) > 1 or
            len({type(e) for e in v.values()}) > 1 or
            any(_hetero(e) for e in v.values()))
  if isinstance(v, tuple):
    return any(_hetero(e) for e in v)
  return False


def _required_kwonly(v):
  import inspect  # pylint: disable=g-import-not-at-top
  if not inspect.isfunction(v):
    return False
  return any(p.kind is p.KEYWORD_ONLY and p.default is p.empty
             for p in inspect.signature(v).parameters.values())


def kf_class(t, v, site):
  """Recorded-finding class of one (annotation, value, site) comparison."""
  if t == ("bool",) and v is None:
    return "none-as-bool"
  if site == "arg" and _hetero(v) and not member(v, t):
    return "arg-any-view"
  if site == "asg" and v is None and not member(v, t):
    return "asg-none-allowed"
  if t[0] in ("Callable0", "Callable1", "Callable2") and _required_kwonly(v) and not member(v, t):
    return "callable-kwonly-arity"
  return None


def explain(fn, s):
  i, j = int(s[0]), int(s[1])
  t, v = GRAMMAR[i], RUNTIME[j]
  arg_err, (ret_bad, ret_n), asg_n = sites(i, j)
  return {"annotation": spell(t), "value": VALUES[j],
          "member_per_oracle": member(v, t),
          "pytype_argument_error": arg_err, "pytype_return_error": ret_bad,
          "pytype_return_errors_logged": ret_n,
          "pytype_assignment_errors_logged": asg_n}
