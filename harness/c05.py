"""C05 — generated stubs in the emitted dialect are valid and are fixed points
of parse-then-print, under CrossHair.

A stub text is generated from selectors, then:
  ast0 = parse(text)           VerifyVisitor passes; declarations match the SPEC
                               the text was generated from (parameter kinds,
                               defaults, star-args, method kinds, bases, ...)
  t1   = Print(ast0)           the text pytype itself emits for it
  ast1 = parse(t1)             VerifyVisitor passes; ASTeq(ast1, ast0)
  t2   = Print(ast1)           t2 == t1   (fixed point)
  canonical_pyi(canonical_pyi(t1)) == canonical_pyi(t1)

Printer (pytd/printer.py), parser (pyi/parser.py, definitions.py, function.py,
classdef.py), VerifyVisitor and CanonicalOrderingVisitor all run traced;
CPython's ast.parse is called on concrete text and is trusted.  Structural
inputs only: solver-certified exhaustive walk of the bounded stub space.
"""

from typing import Tuple

from vlib.prelude import (  # noqa
    record, shard_ok, check_post, TIER, param, conc, inrange, all_inrange,
    untraced)

from pytype.pyi import parser
from pytype.pytd import pytd
from pytype.pytd import pytd_utils
from pytype.pytd import visitors

TYPES = ["int", "str", "None", "Any", "list[int]", "Optional[str]",
         "Union[int, str]", "tuple[int, ...]", "tuple[int, str]",
         "Callable[[int], str]", "dict[str, list[int]]", "type[int]",
         "Literal[1]", "Literal['a']", "Literal[True]", "T",
         "Callable[..., Any]", "tuple[()]"]
HEADER = ("from typing import Annotated, Any, Callable, Generic, Literal, Optional, TypeVar, Union\n"
          "import collections\n"
          "T = TypeVar('T')\n")


def roundtrip(text):
  """Runs the chain; returns (problems, ast0)."""
  problems = []
  ast0 = parser.parse_string(text)
  ast0.Visit(visitors.VerifyVisitor())
  t1 = pytd_utils.Print(ast0)
  ast1 = parser.parse_string(t1)
  ast1.Visit(visitors.VerifyVisitor())
  t2 = pytd_utils.Print(ast1)
  if t2 != t1:
    problems.append("Print(parse(t1)) != t1")
  if not pytd_utils.ASTeq(ast1, ast0):
    problems.append("re-read declarations differ from what was printed")
  c1 = parser.canonical_pyi(t1)
  if parser.canonical_pyi(c1) != c1:
    problems.append("canonical_pyi is not idempotent")
  return problems, ast0, t1


# -------------------------------------------------------------------- h_func

MAXP = param("C05_MAXP", quick=2, thorough=2)
NTY = param("C05_NTYPES", quick=4, thorough=len(TYPES))
# npo, npk, nko, ndef, komask, varargs, kwargs, type, overloads
FUNC_SEL = Tuple[(int,) * 9]


def func_ok(t):
  npo, npk, nko, ndef, komask, va, kw, ty, ov = t
  return all([
      inrange(npo, 0, MAXP + 1), inrange(npk, 0, MAXP + 1), inrange(nko, 0, MAXP + 1),
      0 <= ndef, ndef <= npo + npk, inrange(komask, 0, 4),
      any([nko == 2, all([nko == 1, komask < 2]), all([nko == 0, komask == 0])]),
      inrange(va, 0, 2), inrange(kw, 0, 2), inrange(ty, 0, NTY), inrange(ov, 0, 2)])


def func_key(t):
  key = 0
  for x, r in zip(t, (3, 3, 3, 5, 4, 2, 2, 18, 2)):
    key = key * r + x
  return key


def func_spec(t):
  npo = conc(t[0], MAXP + 1)
  npk = conc(t[1], MAXP + 1)
  nko = conc(t[2], MAXP + 1)
  ndef = conc(t[3], npo + npk + 1)
  komask = conc(t[4], 4) & (2 ** nko - 1)
  va, kw = conc(t[5], 2), conc(t[6], 2)
  ty = TYPES[conc(t[7], NTY)]
  ov = conc(t[8], 2)
  params = []
  npos = npo + npk
  for i in range(npos):
    kind = "POSONLY" if i < npo else "REGULAR"
    params.append((("p%d" if i < npo else "a%d") % i, kind, i >= npos - ndef))
  for i in range(nko):
    params.append(("k%d" % i, "KWONLY", bool(komask >> i & 1)))
  return params, bool(va), bool(kw), ty, ov


def star_text(name, ty):
  """pytype's printer writes `*args` (not `*args: Any`) when the element type is
  Any, and the parser reads the bare form as plain `tuple`/`dict`: the
  annotated-Any spelling is not part of the emitted dialect."""
  return name if ty == "Any" else "%s: %s" % (name, ty)


def param_text(name, ty):
  """Likewise a parameter of type Any is printed without annotation."""
  return name if ty == "Any" else "%s: %s" % (name, ty)


def sig_text(params, va, kw, ty, ret):
  parts = []
  seen_slash = False
  for i, (name, kind, opt) in enumerate(params):
    if kind == "KWONLY" and not any(p == "*" or p.startswith("*a") for p in parts):
      if any(k == "POSONLY" for _, k, _ in params) and not seen_slash:
        parts.append("/")
        seen_slash = True
      parts.append(star_text("*args", ty) if va else "*")
    parts.append("%s%s" % (param_text(name, ty), " = ..." if opt else ""))
    if kind == "POSONLY" and (i + 1 == len(params) or params[i + 1][1] != "POSONLY"):
      parts.append("/")
      seen_slash = True
  if va and not any(p.startswith("*a") for p in parts):
    parts.append(star_text("*args", ty))
  if kw:
    parts.append(star_text("**kwargs", ty))
  return "(%s) -> %s" % (", ".join(parts), ret)


def check_sig(sig, params, va, kw):
  """pytd.Signature against the spec it was generated from."""
  problems = []
  got = [(p.name, p.kind.name, p.optional) for p in sig.params]
  if got != params:
    problems.append("parameters %r, spec %r" % (got, params))
  if (sig.starargs is not None) != va:
    problems.append("*args presence %r, spec %r" % (sig.starargs is not None, va))
  if (sig.starstarargs is not None) != kw:
    problems.append("**kwargs presence")
  return problems


def h_func(t: FUNC_SEL) -> bool:
  """
  pre: func_ok(t)
  pre: shard_ok(func_key(t))
  post: check_post(_)
  """
  params, va, kw, ty, ov = func_spec(t)
  text = HEADER
  if ov:
    text = text.replace("Union\n", "Union, overload\n")
    text += "@overload\ndef f%s: ...\n" % sig_text(params, va, kw, ty, "int")
    text += "@overload\ndef f(x: str) -> str: ...\n"
  else:
    text += "def f%s: ...\n" % sig_text(params, va, kw, ty, ty)
  problems, ast0, t1 = roundtrip(text)
  f = ast0.Lookup("f")
  problems += check_sig(f.signatures[0], params, va, kw)
  if len(f.signatures) != (2 if ov else 1):
    problems.append("number of signatures")
  # the emitted text must say the same thing: re-read it and compare with the spec
  f1 = parser.parse_string(t1).Lookup("f")
  problems += ["emitted text: " + p for p in check_sig(f1.signatures[0], params, va, kw)]
  record("F def f%s%s %s" % (sig_text(params, va, kw, ty, ty), " +overload" if ov else "",
                             "N" if params else "T"))
  return not problems


# ------------------------------------------------------------------- h_class

# base (0 none, 1 A, 2 Generic[T], 3 A and Generic[T]), method kind (0 method, 1 static,
# 2 class, 3 property), has constant, has nested class, type, type2, decorator(0 none, 1 final),
# method name (0 m, 1 __class_getitem__, 2 __new__, 3 __init_subclass__; only with kind 0)
CLASS_SEL = Tuple[(int,) * 8]
MNAMES = ["m", "__class_getitem__", "__new__", "__init_subclass__"]


def class_ok(t):
  return all([inrange(t[0], 0, 4), inrange(t[1], 0, 4), inrange(t[2], 0, 2),
              inrange(t[3], 0, 2), inrange(t[4], 0, NTY), inrange(t[5], 0, NTY),
              inrange(t[6], 0, 2), inrange(t[7], 0, 4), any([t[1] == 0, t[7] == 0])])


def class_key(t):
  key = 0
  for x, r in zip(t, (4, 4, 2, 2, 18, 18, 2, 4)):
    key = key * r + x
  return key


def class_text(t):
  base, mk, const, nested, ty, ty2, deco = (
      conc(t[0], 4), conc(t[1], 4), conc(t[2], 2), conc(t[3], 2),
      TYPES[conc(t[4], NTY)], TYPES[conc(t[5], NTY)], conc(t[6], 2))
  bases = {0: "", 1: "(A)", 2: "(Generic[T])", 3: "(A, Generic[T])"}[base]
  lines = [HEADER.rstrip("\n")]
  if deco:
    lines[0] = lines[0].replace("Union", "Union, final")
  lines += ["class A:", "    y: int"]
  if deco:
    lines.append("@final")
  lines.append("class C%s:" % bases)
  body = []
  if const:
    body.append("    x: %s" % ty)
  if nested:
    body += ["    class N:", "        z: %s" % ty2]
  mname = MNAMES[conc(t[7], 4)] if mk == 0 else "m"
  if mk == 0:
    first = "self" if mname == "m" else "cls"
    body.append("    def %s(%s, %s, *, %s = ...) -> %s: ..." % (
        mname, first, param_text("a", ty), param_text("k", ty2), ty))
  elif mk == 1:
    body += ["    @staticmethod", "    def m(%s) -> %s: ..." % (param_text("a", ty), ty2)]
  elif mk == 2:
    body += ["    @classmethod", "    def m(cls, %s) -> %s: ..." % (param_text("a", ty), ty2)]
  else:
    # the form pytype emits for properties (a `@property def` is not in the dialect)
    body.append("    m: Annotated[%s, 'property']" % ty)
  lines += body
  spec = dict(base=base, mk=mk, const=const, nested=nested, deco=deco, mname=mname)
  return "\n".join(lines) + "\n", spec


def class_block_lines(text):
  """Stripped non-blank lines of `class C` up to the end of its block."""
  out, inside = [], False
  for line in text.split("\n"):
    if line.startswith("class C"):
      inside = True
    elif inside and line and not line.startswith(" "):
      break
    if inside and line.strip():
      out.append(line.strip())
  return out


def check_class(cls, spec):
  problems = []
  want_bases = {0: ["object"], 1: ["A"], 2: ["typing.Generic"],
                3: ["A", "typing.Generic"]}[spec["base"]]
  got_bases = [b.base_type.name if isinstance(b, pytd.GenericType) else b.name
               for b in cls.bases]
  if got_bases != want_bases:
    problems.append("bases %r, spec %r" % (got_bases, want_bases))
  names = [c.name for c in cls.constants]
  if ("x" in names) != bool(spec["const"]):
    problems.append("constant x")
  if bool(cls.classes) != bool(spec["nested"]):
    problems.append("nested class")
  if bool(cls.decorators) != bool(spec["deco"]):
    problems.append("decorators %r" % (cls.decorators,))
  if spec["mk"] == 3:
    if "m" not in names and not any(m.name == "m" and m.kind == pytd.MethodKind.PROPERTY
                                    for m in cls.methods):
      problems.append("property m missing")
  else:
    want = [pytd.MethodKind.METHOD, pytd.MethodKind.STATICMETHOD,
            pytd.MethodKind.CLASSMETHOD][spec["mk"]]
    # methods Python itself treats specially even when undecorated
    want = {"__new__": pytd.MethodKind.STATICMETHOD,
            "__init_subclass__": pytd.MethodKind.CLASSMETHOD}.get(spec["mname"], want)
    ms = [m for m in cls.methods if m.name == spec["mname"]]
    if len(ms) != 1 or ms[0].kind != want:
      problems.append("method m kind %r, spec %r" % ([m.kind for m in ms], want))
  return problems


def h_class(t: CLASS_SEL) -> bool:
  """
  pre: class_ok(t)
  pre: shard_ok(class_key(t))
  post: check_post(_)
  """
  text, spec = class_text(t)
  problems, ast0, t1 = roundtrip(text)
  problems += check_class(ast0.Lookup("C"), spec)
  problems += ["emitted text: " + p for p in check_class(
      parser.parse_string(t1).Lookup("C"), spec)]
  # the generated class block is in the printer's own format: printing what was
  # read must reproduce its lines (no decorator added or dropped, nothing rewritten)
  want_lines = sorted(class_block_lines(text))
  got_lines = sorted(class_block_lines(t1))
  if want_lines != got_lines:
    problems.append("class C re-printed as %r, generated %r" % (got_lines, want_lines))
  record("C %r N" % (text[len(HEADER):],))
  return not problems


# ------------------------------------------------------------------- h_types

# constant type, param type, return type, alias kind (0 none, 1 type alias, 2 module import use)
TYPES_SEL = Tuple[(int,) * 4]
NTY_ALL = param("C05_NTYPES_ALL", quick=10, thorough=len(TYPES))


def types_ok(t):
  return all([all_inrange(t[:3], 0, NTY_ALL), inrange(t[3], 0, 3)])


def types_key(t):
  return t[0] + 18 * (t[1] + 18 * (t[2] + 18 * t[3]))


def h_types(t: TYPES_SEL) -> bool:
  """
  pre: types_ok(t)
  pre: shard_ok(types_key(t))
  post: check_post(_)
  """
  a, b, c = (TYPES[conc(t[i], NTY_ALL)] for i in range(3))
  alias = conc(t[3], 3)
  text = HEADER + "x: %s\ndef f(a: %s, b: %s = ...) -> %s: ...\n" % (a, b, a, c)
  if alias == 1:
    text += "Z = %s\ny: Z\n" % b
  elif alias == 2:
    text += "w: collections.OrderedDict[str, %s]\n" % c
  problems, ast0, t1 = roundtrip(text)
  if ast0.Lookup("x") is None or ast0.Lookup("f") is None:
    problems.append("declaration lost")
  record("T %r N" % (text[len(HEADER):],))
  return not problems


# ---------------------------------------------------------------- h_resolved
#
# Stubs printed from RESOLVED ASTs.  What pytype emits is not printed from a
# freshly parsed AST but from one that went through the resolving visitors
# (optimize.Optimize applies AdjustSelf; load_pytd / serialize_ast / the tracer
# apply AdjustTypeParameters): classes carry templates and self / cls carry
# their class type, and the printer's decision to omit those annotations
# (PrintVisitor.VisitParameter.class_name) only matters on such ASTs.  Here the
# real visitors build the resolved AST from a generated stub, and the text
# printed from it must be a fixed point of plain parse-then-print.

# outer generic, nesting depth (0..2), method kind (0 method, 1 class, 2 static,
# 3 property), first-parameter annotation (0 none, 1 short name, 2 qualified
# name), return type (0 int, 1 the qualified class, 2 T when bound), pipeline
# (0 AdjustTypeParameters, 1 + AdjustSelf(), 2 + AdjustSelf(force=True))
RES_SEL = Tuple[(int,) * 6]
RES_HEADER = "from typing import Annotated, Any, Generic, TypeVar\nT = TypeVar('T')\n"


def res_ok(t):
  return all([inrange(t[0], 0, 2), inrange(t[1], 0, 3), inrange(t[2], 0, 4),
              inrange(t[3], 0, 3), inrange(t[4], 0, 3), inrange(t[5], 0, 3)])


def res_key(t):
  key = 0
  for x, r in zip(t, (2, 3, 4, 3, 3, 3)):
    key = key * r + x
  return key


def res_text(t):
  ob, depth, mk = conc(t[0], 2), conc(t[1], 3), conc(t[2], 4)
  ann, ret, adj = conc(t[3], 3), conc(t[4], 3), conc(t[5], 3)
  names = ["Outer", "Mid", "Inner"][:depth + 1]
  qual, short = ".".join(names), names[-1]
  lines = [RES_HEADER.rstrip("\n")]
  ind = ""
  for i, n in enumerate(names):
    lines.append("%sclass %s%s:" % (ind, n, "(Generic[T])" if (i == 0 and ob) else ""))
    ind += "    "
    if i < len(names) - 1:
      lines.append("%sv%d: int" % (ind, i))
  cn = [None, short, qual][ann]
  rt = ["int", qual, "T" if (ob and depth == 0) else "int"][ret]
  if mk == 0:
    lines.append("%sdef m(%s, a: int) -> %s: ..." % (ind, "self" if cn is None else "self: " + cn, rt))
  elif mk == 1:
    lines += [ind + "@classmethod",
              "%sdef m(%s, a: int) -> %s: ..." % (ind, "cls" if cn is None else "cls: type[%s]" % cn, rt)]
  elif mk == 2:
    lines += [ind + "@staticmethod", "%sdef m(a: int) -> %s: ..." % (ind, rt)]
  else:
    lines.append("%sm: Annotated[%s, 'property']" % (ind, rt))
  return "\n".join(lines) + "\n", adj, (ob, names, mk, ann == 0)


def resolved_roundtrip(text, adj, plain_first=False):
  problems = []
  ast0 = parser.parse_string(text)
  ast_r = ast0.Visit(visitors.AdjustTypeParameters())
  if adj:
    ast_r = ast_r.Visit(visitors.AdjustSelf(force=(adj == 2)))
  ast_r.Visit(visitors.VerifyVisitor())
  t1 = pytd_utils.Print(ast_r)          # what pytype emits for the resolved AST
  ast1 = parser.parse_string(t1)
  ast1.Visit(visitors.VerifyVisitor())
  t2 = pytd_utils.Print(ast1)
  if t2 != t1:
    problems.append("the text printed from the resolved AST is not a fixed point of parse-then-print")
  if pytd_utils.Print(ast0) != t1:
    problems.append("resolving the AST changed the printed text")
  # (both printed by now: Class equality includes the name cache Print fills.)
  # An explicit `self: C` / `cls: type[C]` is deliberately printed as bare
  # self / cls (see AdjustSelf's docstring), so declarations are compared only
  # when the generated text has none.
  if plain_first and not pytd_utils.ASTeq(ast1, ast0):
    problems.append("re-read declarations differ from the declarations the text was generated from")
  c1 = parser.canonical_pyi(t1)
  if parser.canonical_pyi(c1) != c1:
    problems.append("canonical_pyi is not idempotent")
  return problems, ast_r, t1


def h_resolved(t: RES_SEL) -> bool:
  """
  pre: res_ok(t)
  pre: shard_ok(res_key(t))
  post: check_post(_)
  """
  text, adj, (ob, names, mk, plain) = res_text(t)
  problems, ast_r, t1 = resolved_roundtrip(text, adj, plain)
  cls = ast_r.Lookup(names[0])
  if bool(cls.template) != bool(ob):
    problems.append("outer class template %r" % (cls.template,))
  for n in names[1:]:
    inner = [c for c in cls.classes if c.name == n]
    if len(inner) != 1:
      problems.append("nested class %s lost" % n)
      break
    cls = inner[0]
  record("R %r/%d N" % (text[len(RES_HEADER):], adj))
  return not problems


# ---------------------------------------------------------------- h_typevars
#
# Type variables the emitter has to declare itself.  In an inferred AST a
# TypeVar defined inside a class or function body is used in signatures without
# a module-level declaration, and two scopes may define different TypeVars of
# the same name (`_T = TypeVar("_T", bound="ThisClass")` in two classes); the
# real AdjustTypeParameters visitor adds the missing declarations before the
# stub is printed.  Stub text cannot express that shape (the parser demands
# module-level TypeVars), so the AST is built from a parsed stub by dropping the
# module-level declarations and renaming the type parameters with a visitor
# (a modelled input shape; everything after it is the real code).

# bound of A's variable, bound of B's variable (0 none, 1 int, 2 str, 3 the class
# itself), B present, a module-level function uses A's variable, declarations
# kept at module level, both variables get the same name
TV_SEL = Tuple[(int,) * 6]
TV_BOUNDS = ["", ", bound=int", ", bound=str", None]


def tv_ok(t):
  return all([inrange(t[0], 0, 4), inrange(t[1], 0, 4), inrange(t[2], 0, 2),
              inrange(t[3], 0, 2), inrange(t[4], 0, 2), inrange(t[5], 0, 2)])


def tv_key(t):
  key = 0
  for x, r in zip(t, (4, 4, 2, 2, 2, 2)):
    key = key * r + x
  return key


class _RenameTypeParameters(visitors.Visitor):

  def VisitTypeParameter(self, t):
    return t.Replace(name="_T")


def tv_build(t):
  ba, bb = conc(t[0], 4), conc(t[1], 4)
  has_b, fn, keep, same = conc(t[2], 2), conc(t[3], 2), conc(t[4], 2), conc(t[5], 2)
  bound = lambda i, cls: (", bound=%s" % cls) if TV_BOUNDS[i] is None else TV_BOUNDS[i]
  lines = ["from typing import TypeVar", "TA = TypeVar('TA'%s)" % bound(ba, "A")]
  if has_b:
    lines.append("TB = TypeVar('TB'%s)" % bound(bb, "B"))
  lines += ["class A:", "    def f(self, x: TA) -> TA: ..."]
  if has_b:
    lines += ["class B:", "    def g(self, x: TB) -> TB: ..."]
  if fn:
    lines.append("def h(x: TA) -> TA: ...")
  text = "\n".join(lines) + "\n"
  ast0 = parser.parse_string(text)
  if not keep:
    ast0 = ast0.Replace(type_params=())
  if same and not keep:
    ast0 = ast0.Visit(_RenameTypeParameters())
  return text, ast0, (has_b, keep, same)


def tv_roundtrip(ast0):
  problems = []
  ast_r = ast0.Visit(visitors.AdjustTypeParameters())
  ast_r.Visit(visitors.VerifyVisitor())
  names = [p.name for p in ast_r.type_params]
  if len(set(names)) != len(names):
    problems.append("type parameter declared twice: %r" % (names,))
  t1 = pytd_utils.Print(ast_r)
  ast1 = parser.parse_string(t1)
  ast1.Visit(visitors.VerifyVisitor())
  t2 = pytd_utils.Print(ast1)
  if t2 != t1:
    problems.append("the text printed from the resolved AST is not a fixed point of parse-then-print")
  c1 = parser.canonical_pyi(t1)
  if parser.canonical_pyi(c1) != c1:
    problems.append("canonical_pyi is not idempotent")
  return problems, t1, t2


def h_typevars(t: TV_SEL) -> bool:
  """
  pre: tv_ok(t)
  pre: shard_ok(tv_key(t))
  post: check_post(_)
  """
  text, ast0, spec = tv_build(t)
  problems, t1, _ = tv_roundtrip(ast0)
  if "def f(self, x" not in t1:
    problems.append("method lost")
  record("V %r/%r N" % (text, spec))
  return not problems


def explain(fn, t):
  if fn == "h_func":
    params, va, kw, ty, ov = func_spec(t)
    text = HEADER + "def f%s: ...\n" % sig_text(params, va, kw, ty, ty)
    spec = params
  elif fn == "h_class":
    text, spec = class_text(t)
  elif fn == "h_typevars":
    text, ast0, spec = tv_build(t)
    out = {"stub the AST was derived from": text,
           "module-level declarations kept / both variables named _T": [bool(spec[1]), bool(spec[2])]}
    try:
      problems, t1, t2 = tv_roundtrip(ast0)
      out.update({"emitted": t1, "re-printed": t2, "problems": problems})
    except Exception as e:  # pylint: disable=broad-except
      out["raised"] = "%s: %s" % (type(e).__name__, e)
    return out
  elif fn == "h_resolved":
    text, adj, spec = res_text(t)
    out = {"stub": text, "pipeline": ["AdjustTypeParameters", "+ AdjustSelf()", "+ AdjustSelf(force=True)"][adj]}
    try:
      problems, _, t1 = resolved_roundtrip(text, adj, spec[3])
      out["emitted"] = t1
      out["re-printed"] = pytd_utils.Print(parser.parse_string(t1))
      out["problems"] = problems
    except Exception as e:  # pylint: disable=broad-except
      out["raised"] = "%s: %s" % (type(e).__name__, e)
    return out
  else:
    return {"selectors": list(t)}
  out = {"stub": text, "spec": repr(spec)}
  try:
    problems, ast0, t1 = roundtrip(text)
    out["emitted"] = t1
    if fn == "h_class" and sorted(class_block_lines(text)) != sorted(class_block_lines(t1)):
      problems.append("class C is re-printed with different lines than generated")
    out["problems"] = problems
  except Exception as e:  # pylint: disable=broad-except
    out["raised"] = "%s: %s" % (type(e).__name__, e)
  return out
