"""C04 — the two ordering mechanisms behind deterministic output, under CrossHair.

(The hash seed, in-process history and the bytes of the C encoders cannot be
made symbolic; what is decided here is that the order in which definitions and
errors were COLLECTED cannot reach the output.)

h_errors: ErrorLog.unique_sorted_errors on a symbolic list of real Error
  objects: sorted by (file, line), every output is an input, every input is
  represented by an output with the same unique representation and a
  comparable-or-equal shorter traceback, no two outputs of one representation
  have comparable tracebacks, at most MAX_TRACEBACKS per representation.
h_canon: CanonicalOrderingVisitor on a unit whose every sortable tuple
  (constants, functions, classes, aliases, type params, class members, slots,
  decorators, signature exceptions, union members) is permuted by symbolic
  selectors: the canonical form equals that of the unpermuted unit; signature
  order and the field order of dataclass-like classes are preserved.
"""

from typing import Tuple

from vlib.prelude import (  # noqa
    record, shard_ok, check_post, TIER, param, conc, inrange, all_inrange,
    untraced)

from pytype.errors import errors
from pytype.pytd import pytd
from pytype.pytd import pytd_utils

# ------------------------------------------------------------------ h_errors

NERR = param("C04_NERR", quick=3, thorough=4)
NREPR = param("C04_NREPR", quick=4, thorough=4)
ERR_SEL = Tuple[(int,) * (2 * NERR)]

REPRS = [("a.py", 1, "m"), ("a.py", 2, "m"), ("b.py", 1, "m"), ("a.py", 1, "m2"),
         (None, 0, "m")]
_TB = errors.TRACEBACK_MARKER if hasattr(errors, "TRACEBACK_MARKER") else "Traceback:\n"
TRACEBACKS = [None, _TB + "  line 2, in foo", _TB + "  line 1, in <module>\n  line 2, in foo",
              _TB + "  line 9, in bar\n  line 2, in foo", _TB + "  line 7, in zed"]
TB_NAMES = ["-", "S", "xS", "yS", "Z"]


def err_ok(t):
  return all([all_inrange(t[0::2], 0, NREPR), all_inrange(t[1::2], 0, len(TRACEBACKS))])


def err_key(t):
  key = 0
  for i in range(min(NERR, 3)):
    key = key * 5 + t[2 * i]
    key = key * 5 + t[2 * i + 1]
  return key


def cmp_tb(a, b):
  """Independent restatement of traceback comparability (suffix order)."""
  a = a or ""
  b = b or ""
  if a == b:
    return 0
  if a.endswith(b[len(_TB):] if b else ""):
    return 1
  if b.endswith(a[len(_TB):] if a else ""):
    return -1
  return None


def h_errors(t: ERR_SEL) -> bool:
  """
  pre: err_ok(t)
  pre: shard_ok(err_key(t))
  post: check_post(_)
  """
  spec = [(conc(t[2 * i], NREPR), conc(t[2 * i + 1], len(TRACEBACKS)))
          for i in range(NERR)]
  log = errors.ErrorLog("")
  made = []
  for r, tb in spec:
    f, line, msg = REPRS[r]
    e = errors.Error.for_test(errors.SEVERITY_ERROR, msg, "name-error",
                              filename=f, line=line, traceback=TRACEBACKS[tb])
    made.append(e)
    log._add(e)  # pylint: disable=protected-access
  out = log.unique_sorted_errors()
  ok = []
  # sorted by position
  keys = [(e.filename or "", e.line) for e in out]
  ok.append(keys == sorted(keys))
  # outputs are inputs, none twice
  ok.append(all(any(o is e for e in made) for o in out))
  ok.append(len({id(o) for o in out}) == len(out))
  by_repr = {}
  for o in out:
    by_repr.setdefault(o.get_unique_representation(), []).append(o)
  # unique: no two outputs of a representation with comparable tracebacks
  for group in by_repr.values():
    ok.append(len(group) <= errors.MAX_TRACEBACKS)
    for i, a in enumerate(group):
      for b in group[:i]:
        ok.append(cmp_tb(a.traceback, b.traceback) is None)
  # complete: every input is represented by an equal-or-shorter traceback
  for e in made:
    group = by_repr.get(e.get_unique_representation(), [])
    ok.append(any(cmp_tb(e.traceback, o.traceback) in (0, 1) for o in group))
  nt = len({r for r, _ in spec}) < NERR
  record("E %s %s" % (" ".join("%d%s" % (r, TB_NAMES[tb]) for r, tb in spec),
                      "N" if nt else "T"))
  return all(ok)


# ------------------------------------------------------------------- h_canon

INT = pytd.NamedType("builtins.int")
STR = pytd.NamedType("builtins.str")
NONE = pytd.NamedType("builtins.NoneType")
FLOAT = pytd.NamedType("builtins.float")
_P3 = [(0, 1, 2), (0, 2, 1), (1, 0, 2), (1, 2, 0), (2, 0, 1), (2, 1, 0)]
NP3 = param("C04_NP3", quick=3, thorough=6)   # permutations tried for 3-element tuples
CANON_SEL = Tuple[(int,) * 9]


def canon_ok(t):
  return all([inrange(t[0], 0, NP3), inrange(t[1], 0, NP3), inrange(t[2], 0, 2),
              inrange(t[3], 0, 2), inrange(t[4], 0, 4), inrange(t[5], 0, NP3),
              inrange(t[6], 0, 2), inrange(t[7], 0, 2), inrange(t[8], 0, 2)])


def canon_key(t):
  key = 0
  for x, r in zip(t, (6, 6, 2, 2, 4, 6, 2, 2, 2)):
    key = key * r + x
  return key


def p3(items, i):
  return tuple(items[j] for j in _P3[i])


def p2(items, i):
  return tuple(reversed(items)) if i else tuple(items)


DECOS = [(), (pytd.Alias("final", pytd.NamedType("typing.final")),),
         (pytd.Alias("dataclasses.dataclass", pytd.NamedType("dataclasses.dataclass")),),
         (pytd.Alias("final", pytd.NamedType("typing.final")),
          pytd.Alias("foo.deco", pytd.NamedType("foo.deco")))]


def make_unit(t, permuted):
  """The template unit; with permuted=True every sortable tuple is reordered
  according to the selectors (fields of the dataclass-like class stay put)."""
  sel = [conc(t[0], NP3), conc(t[1], NP3), conc(t[2], 2), conc(t[3], 2),
         conc(t[4], 4), conc(t[5], NP3), conc(t[6], 2), conc(t[7], 2), conc(t[8], 2)]
  if not permuted:
    deco = sel[4]
    sel = [0] * 9
    sel[4] = deco
  K = pytd.ParameterKind
  union = pytd.UnionType(p3((INT, STR, NONE), sel[1]))
  consts = p3((pytd.Constant("m.c0", INT), pytd.Constant("m.c1", union),
               pytd.Constant("m.c2", STR)), sel[0])
  excs = p2((pytd.NamedType("builtins.KeyError"), pytd.NamedType("builtins.ValueError")), sel[3])
  sig1 = pytd.Signature((pytd.Parameter("a", STR, K.REGULAR, False, None),), None, None,
                        pytd.UnionType(p2((STR, FLOAT), sel[3])), excs, ())
  sig2 = pytd.Signature((pytd.Parameter("a", INT, K.REGULAR, False, None),), None, None, INT, (), ())
  f = pytd.Function("m.f", (sig1, sig2), pytd.MethodKind.METHOD)
  g = pytd.Function("m.g", (sig2,), pytd.MethodKind.METHOD)
  deco = DECOS[sel[4]]
  keep_fields = sel[4] == 2
  fields = (pytd.Constant("k1", INT), pytd.Constant("k0", STR), pytd.Constant("k2", union))
  m1 = pytd.Function("m1", (sig2,), pytd.MethodKind.METHOD)
  m0 = pytd.Function("m0", (sig1,), pytd.MethodKind.METHOD)
  inner = pytd.Class("m.A.In", (), (), (), (), (), (), None, ())
  inner2 = pytd.Class("m.A.Jn", (), (), (), (), (), (), None, ())
  a = pytd.Class(
      "m.A", (), (), p2((m1, m0), sel[6]),
      fields if keep_fields else p3(fields, sel[5]),
      p2((inner, inner2), sel[7]), p2(deco, sel[7]) if len(deco) == 2 else deco,
      p2(("s1", "s0"), sel[6]), ())
  b = pytd.Class("m.B", (), (pytd.NamedType("m.A"),), (), (), (), (), None, ())
  aliases = p2((pytd.Alias("m.z1", INT), pytd.Alias("m.z0", STR)), sel[8])
  tparams = p2((pytd.TypeParameter("T"), pytd.TypeParameter("S")), sel[8])
  return pytd.TypeDeclUnit(
      "m", consts, tparams, p2((a, b), sel[2]), p2((f, g), sel[2]), aliases), sel


def h_canon(t: CANON_SEL) -> bool:
  """
  pre: canon_ok(t)
  pre: shard_ok(canon_key(t))
  post: check_post(_)
  """
  base, _ = make_unit(t, False)
  perm, sel = make_unit(t, True)
  c0 = pytd_utils.CanonicalOrdering(base)
  c1 = pytd_utils.CanonicalOrdering(perm)
  ok = [pytd_utils.ASTeq(c0, c1), pytd_utils.Print(c0) == pytd_utils.Print(c1),
        # idempotent
        pytd_utils.Print(pytd_utils.CanonicalOrdering(c1)) == pytd_utils.Print(c1)]
  # signature order is preserved (it is the lookup order)
  ok.append([s.params[0].type for s in c1.Lookup("m.f").signatures] == [STR, INT])
  # dataclass-like classes keep their field order
  names = [c.name for c in c1.Lookup("m.A").constants]
  ok.append(names == (["k1", "k0", "k2"] if sel[4] == 2 else ["k0", "k1", "k2"]))
  record("K %r N" % (sel,))
  return all(ok)


def explain(fn, t):
  if fn == "h_errors":
    spec = [(t[2 * i], t[2 * i + 1]) for i in range(NERR)]
    log = errors.ErrorLog("")
    for r, tb in spec:
      f, line, msg = REPRS[r]
      log._add(errors.Error.for_test(errors.SEVERITY_ERROR, msg, "name-error",  # pylint: disable=protected-access
                                     filename=f, line=line, traceback=TRACEBACKS[tb]))
    return {"logged (in order)": [(REPRS[r], TB_NAMES[tb]) for r, tb in spec],
            "unique_sorted_errors": [(e.filename, e.line, e._message,  # pylint: disable=protected-access
                                      TB_NAMES[TRACEBACKS.index(e.traceback)])
                                     for e in log.unique_sorted_errors()]}
  base, _ = make_unit(t, False)
  perm, sel = make_unit(t, True)
  return {"selectors": sel,
          "canonical(original)": pytd_utils.Print(pytd_utils.CanonicalOrdering(base)),
          "canonical(permuted)": pytd_utils.Print(pytd_utils.CanonicalOrdering(perm))}
