"""C12 — equality/hash law of pytd type nodes and serialisation round trip.

h_law:   two type trees from independent selectors; a == b  =>  hash(a) == hash(b),
         == symmetric, sets/dicts keep one of two equal nodes.
h_perm:  one tree and a symbolic permutation of every union's members (plus an
         optional duplicated member); the permuted type must be equal, hash
         equal, collapse in a set, and unions must be flat and duplicate-free.
h_roundtrip: a stub in the emitted dialect -> SourceToExportableAst (set-up,
         untraced) -> SerializeAst -> Encode -> DecodeAst -> compared with the
         canonically ordered original; re-encoding gives identical bytes.  The
         msgspec encoder/decoder are C code: values are concrete by the time
         they reach it, the solver only supplies the shapes (stated in evidence).
"""

from typing import Tuple

from vlib.prelude import (  # noqa
    record, shard_ok, check_post, TIER, param, conc, inrange, all_inrange,
    untraced)

from harness import typegen as G

from pytype import config
from pytype import load_pytd
from pytype.imports import pickle_utils
from pytype.pytd import pytd
from pytype.pytd import pytd_utils
from pytype.pytd import serialize_ast
from pytype.pytd import visitors

_INT_CLS = pytd.Class("builtins.int", (), (), (), (), (), (), None, ())
T = pytd.TypeParameter("T", scope="m.f")

# leaves for the law: the same class reached through the three node kinds that
# can name it, plus special types, literals and a type parameter
LAW_LEAVES = [
    pytd.NamedType("builtins.int"),
    pytd.ClassType("builtins.int"),
    pytd.ClassType("builtins.int", _INT_CLS),
    pytd.NamedType("builtins.str"),
    pytd.AnythingType(),
    pytd.NothingType(),
    pytd.Literal(1),
    pytd.Literal(True),
    T,
    pytd.LateType("a.X"),
    pytd.LateType("a.X", recursive=True),
    pytd.ClassType("pkg.int_alias", _INT_CLS),   # another name, same resolved class
]
LAW_NAMES = ["N:int", "C:int", "C*:int", "N:str", "Any", "nothing", "Literal[1]",
             "Literal[True]", "T", "Late:a.X", "LateRec:a.X", "C*:int_alias"]
NL = param("C12_NLEAVES", quick=4, thorough=5)
COMP = param("C12_COMP", quick=2, thorough=5)   # composite kinds (union, list, tuple, callable, tuple[...])
DEPTH = param("C12_DEPTH", quick=2, thorough=2)
NN = G.nodes(DEPTH)
LAW_SEL = Tuple[(int,) * (4 * NN)]


def mk_named(name):
  return pytd.NamedType(name)


def mk_class(name):
  return pytd.ClassType(name)


def law_ok(t):
  return all([G.tree_ok(t, 0, DEPTH, NL, COMP), G.tree_ok(t, 2 * NN, DEPTH, NL, COMP)])


def law_key(t):
  if DEPTH == 1:
    return t[0] + 16 * t[2]
  return t[0] + 16 * (t[1] + 3 * (t[2] + 16 * (t[2 * NN] + 16 * (t[2 * NN + 1] + 3 * t[2 * NN + 2]))))


def h_law(t: LAW_SEL) -> bool:
  """
  pre: law_ok(t)
  pre: shard_ok(law_key(t))
  post: check_post(_)
  """
  da = G.decode(t, 0, DEPTH, NL, COMP)
  db = G.decode(t, 2 * NN, DEPTH, NL, COMP)
  ok = []
  # container base classes named once through NamedType and once through ClassType
  for mk_a, mk_b in ((mk_named, mk_named), (mk_class, mk_class), (mk_named, mk_class)):
    a = G.build(da, LAW_LEAVES, mk_a)
    b = G.build(db, LAW_LEAVES, mk_b)
    eq_ab = a == b
    eq_ba = b == a
    ok += [eq_ab == eq_ba, a == a, hash(a) == hash(a)]
    if eq_ab:
      ok += [hash(a) == hash(b), len({a, b}) == 1, len({a: 1, b: 2}) == 1]
  nt = da[0] != "leaf" and db[0] != "leaf"
  record("L %s | %s %s" % (G.show(da, LAW_NAMES), G.show(db, LAW_NAMES),
                           "N" if nt else "T"))
  return all(ok)


# ------------------------------------------------------------------ h_perm

PDEPTH = param("C12_PDEPTH", quick=2, thorough=3)
PNL = param("C12_PNLEAVES", quick=6, thorough=2)
PCOMP = param("C12_PCOMP", quick=5, thorough=2)
PERM_INNER = param("C12_PERM_INNER", quick=7, thorough=2)  # permutation choices for non-root unions
PN = G.nodes(PDEPTH)
PERM_SEL = Tuple[(int,) * (2 * PN + PN)]   # tree + one permutation selector per node


def perm_ok(t):
  return all([G.tree_ok(t, 0, PDEPTH, PNL, PCOMP), inrange(t[2 * PN], 0, 7),
              any([t[0] == PNL + G.K_UNION, t[2 * PN] == 0]),
              all_inrange(t[2 * PN + 1:], 0, PERM_INNER)])


def perm_key(t):
  return t[0] + 16 * (t[1] + 3 * (t[2] + 16 * (t[4] + 16 * t[2 * PN])))


_PERMS3 = [(0, 1, 2), (0, 2, 1), (1, 0, 2), (1, 2, 0), (2, 0, 1), (2, 1, 0)]


def permuted(d, t, i=0):
  """Same tree, members of every union reordered by that node's selector
  (selector 6 = original order with the first member repeated at the end)."""
  kind, x = d
  if kind == "leaf":
    return d
  kids = tuple(permuted(c, t, 3 * i + 1 + j) for j, c in enumerate(x))
  if kind != G.K_UNION:
    return (kind, kids)
  p = conc(t[2 * PN + i], 7 if i == 0 else PERM_INNER)
  if p == 6:
    return (kind, kids + (kids[0],))
  order = [j for j in _PERMS3[p] if j < len(kids)]
  return (kind, tuple(kids[j] for j in order))


def flat_and_unique(ty):
  """No union directly inside a union and no repeated member, recursively."""
  if isinstance(ty, pytd.UnionType):
    for m in ty.type_list:
      if isinstance(m, pytd.UnionType):
        return False
    if len(set(ty.type_list)) != len(ty.type_list):
      return False
    return all(flat_and_unique(m) for m in ty.type_list)
  if isinstance(ty, pytd.GenericType):
    return all(flat_and_unique(p) for p in ty.parameters)
  return True


def h_perm(t: PERM_SEL) -> bool:
  """
  pre: perm_ok(t)
  pre: shard_ok(perm_key(t))
  post: check_post(_)
  """
  d = G.decode(t, 0, PDEPTH, PNL, PCOMP)
  if not G.has_kind(d, G.K_UNION):
    return True
  d2 = permuted(d, t)
  a = G.build(d, LAW_LEAVES, mk_class)
  b = G.build(d2, LAW_LEAVES, mk_class)
  ok = [a == b, b == a, hash(a) == hash(b), len({a, b}) == 1,
        {a: "x"}.get(b) == "x", flat_and_unique(a), flat_and_unique(b),
        pytd_utils.Print(a) is not None]
  record("P %s ~ %s N" % (G.show(d, LAW_NAMES), G.show(d2, LAW_NAMES)))
  return all(ok)


# --------------------------------------------------------------- h_roundtrip

_options = config.Options.create()
_loader = load_pytd.create_loader(_options)

RT_TYPES = ["int", "str", "None", "object", "Any", "list[int]", "tuple[int, ...]",
            "tuple[int, str]", "Union[int, str]", "Optional[str]",
            "Callable[[int], str]", "dict[str, list[int]]", "type[int]",
            "Literal[1]", "Union[str, int, None]", "T"]
NRT = param("C12_RT_TYPES", quick=8, thorough=16)
RT_SEL = Tuple[(int,) * 8]


def rt_ok(s):
  return all([all_inrange(s[:2], 0, NRT), inrange(s[2], 0, 3), s[3] == 0, inrange(s[4], 0, 4),
              any([s[4] >= 2, s[6] == 0]), inrange(s[5], 0, 3),
              inrange(s[6], 0, 3), inrange(s[7], 0, 2)])


def rt_key(s):
  return s[0] + 16 * (s[1] + 16 * (s[4] + 4 * (s[5] + 3 * s[2])))


def rt_source(s):
  """Stub text in the emitted dialect from 8 selectors."""
  i0, i1 = conc(s[0], NRT), conc(s[1], NRT)
  t0, t1 = RT_TYPES[i0], RT_TYPES[i1]
  t2, t3 = RT_TYPES[(i0 + i1) % NRT], RT_TYPES[(3 * i0 + i1 + 1) % NRT]
  shape = conc(s[4], 4)
  cls = conc(s[5], 3)
  nsig = conc(s[6], 3)
  order = conc(s[7], 2)
  ext = conc(s[2], 3)   # 0: no external module, 1: plain imports, 2: one aliased
  lines = ["from typing import Any, Callable, Literal, Optional, TypeVar, Union",
           "T = TypeVar('T')"]
  decls = []
  # a bare type parameter is only valid inside a signature that binds it
  no_t = lambda x: "int" if x == "T" else x
  ret_f = t3 if "T" in (t1, t2) else no_t(t3)
  if ext:
    lines += ["import mmm", "import zzz.sub" + (" as aaa" if ext == 2 else "")]
    mod = "aaa" if ext == 2 else "zzz.sub"
    decls.append("e: Union[%s.X, mmm.Y, %s]" % (mod, no_t(t0)))
    decls.append("def h(x: %s.X, y: Union[%s.X, mmm.Y]) -> mmm.Y: ..." % (mod, mod))
  decls.append("x: %s" % no_t(t0))
  if shape >= 1:
    decls.append("def f(a: %s, b: %s = ...) -> %s: ..." % (t1, t2, ret_f))
  if shape >= 2:
    for k in range(nsig):
      decls.append("@overload\ndef g(a: %s) -> %s: ..." % (RT_TYPES[k], no_t(t1)))
  if shape >= 3:
    decls.append("y: %s" % no_t(t2))
  if cls >= 1:
    # class A is not generic: a bare type parameter inside it would be an invalid stub
    t0, t1, t2, t3 = ("int" if x == "T" else x for x in (t0, t1, t2, t3))
    body = ["  c: %s" % t3, "  def m(self, p: %s) -> %s: ..." % (t0, t1)]
    if cls >= 2:
      body.append("  @staticmethod\n  def s(q: %s) -> None: ..." % t2)
    decls.append("class A:\n" + "\n".join(body))
    decls.append("class B(A): ...")
  if order:
    decls.reverse()
  if shape >= 2 and nsig:
    lines[0] += ", overload"
  return "\n".join(lines + decls) + "\n"


@untraced
def exportable_ast(src):
  """Set-up: parse + resolve as pytype does before pickling (untraced)."""
  return serialize_ast.SourceToExportableAst("m", src, _loader)


def recorded_deps_match(back):
  """The dependency lists stored next to the AST are the ones the stored
  declarations actually have."""
  deps = visitors.CollectDependencies()
  back.ast.Visit(deps)
  return (sorted(deps.dependencies.items()) == list(back.dependencies) and
          sorted(deps.late_dependencies.items()) == list(back.late_dependencies))


def h_roundtrip(s: RT_SEL) -> bool:
  """
  pre: rt_ok(s)
  pre: shard_ok(rt_key(s))
  post: check_post(_)
  """
  src = rt_source(s)
  ast = exportable_ast(src)
  data = pickle_utils.Serialize(ast, src_path="m.pyi", metadata=["k"])
  back = pickle_utils.DecodeAst(data)
  # re-encode the decoded object straight away (before any Lookup fills the
  # unit's name cache, which SerializeAst clears on the normal path)
  again = pickle_utils.Encode(back)
  # SerializeAst clears the class pointers of `ast` in place; equality of
  # ClassType nodes is by name, so the comparison below is unaffected.
  # (a module imported under an alias is stored under its real name)
  canonical = ast.Visit(serialize_ast.UndoModuleAliasesVisitor()).Visit(
      visitors.CanonicalOrderingVisitor())
  printed = pytd_utils.Print(back.ast)
  ok = [pytd_utils.ASTeq(back.ast, canonical),
        printed == pytd_utils.Print(canonical),
        # the decoded AST is itself canonically ordered
        pytd_utils.Print(back.ast.Visit(visitors.CanonicalOrderingVisitor())) == printed,
        # recorded dependencies are those of the stored declarations
        recorded_deps_match(back),
        back.src_path == "m.pyi", back.metadata == ["k"]]
  ok.append(again == data)
  # and through the normal path (SerializeAst clears caches, re-sorts)
  ok.append(pickle_utils.Serialize(back.ast, src_path="m.pyi", metadata=["k"]) == data)
  # a second, independent serialisation of the same AST gives the same bytes
  ok.append(pickle_utils.Serialize(ast, src_path="m.pyi", metadata=["k"]) == data)
  record("R %r N" % (src,))
  return all(ok)


def explain(fn, *args):
  t = args[0]
  if fn == "h_law":
    da, db = G.decode(t, 0, DEPTH, NL, COMP), G.decode(t, 2 * NN, DEPTH, NL, COMP)
    a = G.build(da, LAW_LEAVES, mk_named)
    b = G.build(db, LAW_LEAVES, mk_named)
    return {"a": repr(a), "b": repr(b), "a==b": a == b, "b==a": b == a,
            "hash(a)==hash(b)": hash(a) == hash(b)}
  if fn == "h_perm":
    d = G.decode(t, 0, PDEPTH, PNL, PCOMP)
    d2 = permuted(d, t)
    a, b = G.build(d, LAW_LEAVES, mk_class), G.build(d2, LAW_LEAVES, mk_class)
    return {"a": G.show(d, LAW_NAMES), "b": G.show(d2, LAW_NAMES), "a==b": a == b,
            "hash equal": hash(a) == hash(b), "len({a,b})": len({a, b})}
  return {"source": rt_source(t)}
