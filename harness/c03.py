"""C03 — disable comments at the Director level, under CrossHair.

Line numbers (directive lines, statement ranges, call ranges, function ranges,
return lines, the reported error's line) are symbolic integers; z3 reasons
about their order and coincidences.  The kinds of directives are decoded from
selectors.

h_lineset : _LineSet against its declarative meaning.
h_director: a real Director is built twice through its real __init__ /
  _parse_src_tree (parser.visit_src_tree replaced by a stand-in visitor that
  carries the symbolic comment groups, i.e. the output of the comment parser):
  once for a source with up to NPRIOR directives, once with one more trailing
  `# pytype: disable=E` / `# type: ignore` at line L.  For a symbolic raw error
  (name, line, opcode):
    (1) if the first Director reports it at line L with class E, the second
        filters it;
    (2) otherwise the two Directors agree on it (same verdict, same reported
        line) unless its class is E (or E is `*` / type: ignore) and its line
        is L or the start line of the statement / call range the directive
        was recorded in (the documented "comment line AND adjusted start
        line" mechanism).
"""

import sys
from typing import Tuple

from vlib.prelude import (  # noqa
    record, shard_ok, check_post, TIER, param, conc, inrange, all_inrange,
    untraced, kf_skip)

from pytype.directors import directors
from pytype.directors import parser
from pytype.errors import errors

MAXL = param("C03_MAXL", quick=6, thorough=8)

# ---------------------------------------------------------------- h_lineset

K = param("C03_LS_OPS", quick=3, thorough=4)
LS_SEL = Tuple[(int,) * (3 * K + 1)]


def ls_ok(t):
  conds = []
  for i in range(K):
    conds += [inrange(t[3 * i], 0, 2), inrange(t[3 * i + 1], 0, MAXL + 1),
              inrange(t[3 * i + 2], 0, 2)]
  conds.append(inrange(t[3 * K], 0, MAXL + 3))
  # documented precondition of start_range: lines of the open-ended
  # directives are non-decreasing
  for i in range(K):
    for j in range(i):
      conds.append(any([t[3 * i] == 0, t[3 * j] == 0, t[3 * j + 1] <= t[3 * i + 1]]))
  return all(conds)


def h_lineset(t: LS_SEL) -> bool:
  """
  pre: ls_ok(t)
  pre: shard_ok(t[0] + 2 * (t[2] + 2 * (t[3] + 2 * (t[5] + 2 * t[3 * K]))))
  post: check_post(_)
  """
  ls = directors._LineSet()  # pylint: disable=protected-access
  kinds = []
  for i in range(K):
    kind = conc(t[3 * i], 2)
    pol = conc(t[3 * i + 2], 2) == 1
    kinds.append((kind, pol))
    if kind == 0:
      ls.set_line(t[3 * i + 1], pol)
    else:
      ls.start_range(t[3 * i + 1], pol)
  q = t[3 * K]
  got = q in ls
  # declarative meaning: the last per-line entry for q wins; otherwise the last
  # open-ended directive at a line <= q; otherwise not a member
  want = False
  for i in range(K):
    if kinds[i][0] == 1 and t[3 * i + 1] <= q:
      want = kinds[i][1]
  for i in range(K):
    if kinds[i][0] == 0 and t[3 * i + 1] == q:
      want = kinds[i][1]
  record("LS %r %s" % (kinds, "N" if any(k for k, _ in kinds) else "T"))
  return got == want


# --------------------------------------------------------------- h_director

NPRIOR = param("C03_NPRIOR", quick=1, thorough=1)
NAMES = ["attribute-error", "bad-return-type", "name-error"]
DNAMES = NAMES + ["*"]
NDNAMES = param("C03_NDNAMES", quick=4, thorough=4)
MAXFUN = param("C03_MAXFUN", quick=1, thorough=2)          # function ranges (2 = nested)
PRIOR_CALL = param("C03_PRIOR_CALL", quick=0, thorough=1)  # prior directives may sit in a call range
MINFUN = param("C03_MINFUN", quick=0, thorough=0)
ONLY_BRT = param("C03_ONLY_BRT", quick=0, thorough=0)  # only bad-return-type (appended directive and queried error)
EXTRA_CALL = param("C03_EXTRA_CALL", quick=1, thorough=1)  # the appended directive may sit in a call range
PRIOR_KINDS = param("C03_PRIOR_KINDS", quick=2, thorough=4)  # prior directives: kinds 1..PRIOR_KINDS
QOPS = param("C03_QOPS", quick=0, thorough=0)  # 0: both opcodes, 1: LOAD_ATTR only, 2: RETURN_VALUE only
ND = NPRIOR + 1
# per directive: kind, polarity, name, line, s, e, has_call, cs, ce  (9)
# kinds: 0 absent, 1 trailing pytype, 2 stand-alone pytype, 3 trailing type: ignore,
#        4 stand-alone type: ignore
DW = 9
# then: extra_pos, nfun(0..2), fs, fe, gs, ge, has_ret, ret, qname, qline, qop
DIR_SEL = Tuple[(int,) * (DW * ND + 11)]
OPCODES = ["RETURN_VALUE", "LOAD_ATTR"]
FILENAME = "t.py"


def dir_ok(t):
  conds = []
  base = DW * ND
  extra_pos = t[base]
  conds.append(inrange(extra_pos, 0, ND))
  for i in range(ND):
    kind, pol, name, l, s, e, hc, cs, ce = t[DW * i:DW * i + DW]
    is_extra = extra_pos == i
    conds += [
        inrange(kind, 0, 5), inrange(pol, 0, 2), inrange(name, 0, NDNAMES),
        inrange(hc, 0, 2),
        any([is_extra, hc == 0]) if not PRIOR_CALL else True,
        any([is_extra ^ True, hc == 0]) if not EXTRA_CALL else True,
        any([is_extra, kind <= PRIOR_KINDS]),
        # a prior trailing directive is a disable (a trailing `enable` inside a
        # statement that also carries a disable is outside the claim)
        any([is_extra, kind != 1, pol == 0]),
        # the appended directive is a trailing disable (or a trailing type: ignore)
        # ... for a concrete error class: `disable=*` is not what the property appends
        any([is_extra ^ True, all([any([kind == 1, kind == 3]), pol == 0,
                                   name < len(NAMES)])]),
        # absent directive: everything pinned
        any([kind != 0, all([pol == 0, name == 0, l == 0, s == 0, e == 0, hc == 0])]),
        any([kind == 0, all([1 <= s, s <= l, l <= e, e <= MAXL])]),
        # a stand-alone comment forms its own single-line group, not in a call
        any([all([kind != 2, kind != 4]), all([s == l, e == l, hc == 0])]),
        # type: ignore has no name/polarity
        any([all([kind != 3, kind != 4]), all([name == 0, pol == 0])]),
        # call range nested in the statement and containing the comment line
        any([all([hc == 0, cs == 0, ce == 0]),
             all([hc == 1, s <= cs, cs <= l, l <= ce, ce <= e])]),
    ]
    for j in range(i):
      k2, _, _, l2, s2, e2, _, _, _ = t[DW * j:DW * j + DW]
      # comments come in line order; statements are identical or disjoint
      conds.append(any([kind == 0, k2 == 0, l2 <= l]))
      conds.append(any([kind == 0, k2 == 0, all([s2 == s, e2 == e]), e2 < s]))
      # at most one comment per line
      conds.append(any([kind == 0, k2 == 0, l2 < l]))
  nfun, fs, fe, gs, ge, has_ret, ret, qname, qline, qop = t[base + 1:base + 11]
  conds += [
      inrange(nfun, MINFUN, MAXFUN + 1),
      any([all([nfun == 0, fs == 0, fe == 0]), all([nfun >= 1, 1 <= fs, fs < fe, fe <= MAXL])]),
      any([all([nfun <= 1, gs == 0, ge == 0]), all([nfun == 2, fs < gs, gs < ge, ge <= fe])]),
      inrange(has_ret, 0, 2),
      any([all([has_ret == 0, ret == 0]), all([has_ret == 1, 1 <= ret, ret <= MAXL])]),
      inrange(qname, 0, min(len(NAMES), NDNAMES)), inrange(qline, 0, MAXL + 1), inrange(qop, 0, 2),
      {0: True, 1: qop == 1, 2: qop == 0}[QOPS],
      (qname == 1) if ONLY_BRT else True,
      any([t[DW * i + 2] == 1 for i in range(ND)] + [t[DW * i] == 3 for i in range(ND)]) if ONLY_BRT else True,
      # a RETURN_VALUE bad-return-type comes from inside a recorded function
      any([qname != NAMES.index("bad-return-type"), qop != 0,
           all([nfun >= 1, fs <= qline, qline <= fe])]),
  ]
  # compiler guarantee assumed: an implicit `return None` carries the first line
  # of the statement it follows, never a continuation line
  for i in range(ND):
    kind, _, _, l, s, e = t[DW * i:DW * i + 6]
    conds.append(any([kind == 0, qname != NAMES.index("bad-return-type"), qop != 0,
                      qline <= s, e < qline]))
  # the parser never splits a statement across a function boundary: a statement
  # range lies inside or outside each function range
  for i in range(ND):
    kind, _, _, l, s, e = t[DW * i:DW * i + 6]
    for a, b, on in ((fs, fe, nfun >= 1), (gs, ge, nfun == 2)):
      # (inside: it is a body statement, so it starts after the `def` line)
      conds.append(any([kind == 0, on ^ True, e < a, b < s,
                        all([a < s, e <= b])]))
  return all(conds)


_W = [1, 7, 31, 101, 211, 401, 601, 809, 1009, 1201, 1409, 1601, 1801, 2003,
      2203, 2411, 2609, 2801, 3001]


def dir_key(t):
  """Weighted sum of the structural selectors (all pinned when unused), so
  that residues modulo a prime shard count are well spread."""
  base = DW * ND
  # (+ two always-read line selectors: the error's line and the first directive's line)
  sels = [t[base], t[base + 1], t[base + 6], t[base + 8], t[base + 10],
          t[base + 9], t[3]]
  for i in range(ND):
    sels += [t[DW * i], t[DW * i + 1], t[DW * i + 2], t[DW * i + 6]]
  return sum(w * x for w, x in zip(_W, sels))


class Comment:
  """What the comment parser hands to the Director for one structured comment."""

  def __init__(self, line, tool, data, open_ended):
    self.line, self.tool, self.data, self.open_ended = line, tool, data, open_ended


class Groups:
  """structured_comment_groups: ordered (line range, comments) pairs."""

  def __init__(self, pairs):
    self.pairs = pairs

  def items(self):
    return list(self.pairs)


class BlockReturns:

  def __init__(self, lines):
    self._lines = lines

  def all_returns(self):
    return set(self._lines)


class Visitor:
  """Stand-in for parser._ParseVisitor after visiting: its result fields."""

  def __init__(self, groups, function_ranges, return_lines):
    self.structured_comment_groups = groups
    self.function_ranges = function_ranges
    self.block_returns = BlockReturns(return_lines)
    self.param_annotations = []
    self.matches = None
    self.variable_annotations = []
    self.decorators = {}
    self.defs_start = None


def decode_directives(t):
  """-> list of dicts (concrete kinds, symbolic lines), and index of the extra."""
  out = []
  for i in range(ND):
    kind = conc(t[DW * i], 5)
    if kind == 0:
      out.append(None)
      continue
    d = {"kind": kind, "line": t[DW * i + 3], "s": t[DW * i + 4], "e": t[DW * i + 5],
         "call": None}
    if kind in (1, 2):
      pol = conc(t[DW * i + 1], 2)
      name = DNAMES[conc(t[DW * i + 2], NDNAMES)]
      d["name"] = name
      d["disable"] = pol == 0
      d["comment"] = Comment(d["line"], "pytype",
                             ("disable=" if pol == 0 else "enable=") + name, kind == 2)
    else:
      d["name"] = "*"
      d["disable"] = True
      d["comment"] = Comment(d["line"], "type", "ignore", kind == 4)
    if kind in (1, 3) and conc(t[DW * i + 6], 2) == 1:
      d["call"] = (t[DW * i + 7], t[DW * i + 8])
    out.append(d)
  return out, conc(t[DW * ND], ND)


def build_director(ds, skip, funcs, rets):
  """A real Director from the comment-parser output for directives `ds`
  (index `skip` left out)."""
  pairs = []
  for i, d in enumerate(ds):
    if d is None or i == skip:
      continue
    # same statement -> same group (the precondition makes statement ranges
    # identical or disjoint, and comments arrive in line order)
    placed = False
    for rng, group in pairs:
      if type(rng) is parser.LineRange and all([rng.start_line == d["s"],  # pylint: disable=unidiomatic-typecheck
                                                 rng.end_line == d["e"]]):
        group.append(d["comment"])
        placed = True
        break
    if not placed:
      pairs.append((parser.LineRange(d["s"], d["e"]), [d["comment"]]))
    if d["call"] is not None:
      pairs.append((parser.Call(d["call"][0], d["call"][1]), [d["comment"]]))
  visitor = Visitor(Groups(pairs), dict(funcs), list(rets))
  saved = parser.visit_src_tree
  parser.visit_src_tree = lambda src_tree: visitor
  try:
    return directors.Director(None, errors.ErrorLog(""), FILENAME, ())
  finally:
    parser.visit_src_tree = saved


def make_error(name, line, opcode):
  return errors.Error.for_test(
      errors.SEVERITY_ERROR, "msg", name, filename=FILENAME, line=line,
      opcode_name=opcode)


def verdict(director, name, line, opcode):
  """(reported?, reported line) for a fresh raw error."""
  err = make_error(name, line, opcode)
  reported = director.filter_error(err)
  return reported, err.line


def h_director(t: DIR_SEL) -> bool:
  """
  pre: dir_ok(t)
  pre: shard_ok(dir_key(t))
  post: check_post(_)
  """
  ds, extra = decode_directives(t)
  base = DW * ND
  nfun = conc(t[base + 1], MAXFUN + 1)
  funcs = []
  if nfun >= 1:
    funcs.append((t[base + 2], t[base + 3]))
  if nfun == 2:
    funcs.append((t[base + 4], t[base + 5]))
  rets = [t[base + 7]] if conc(t[base + 6], 2) else []
  qname = NAMES[conc(t[base + 8], min(len(NAMES), NDNAMES))]
  qline = t[base + 9]
  qop = OPCODES[conc(t[base + 10], 2)]
  x = ds[extra]
  d_without = build_director(ds, extra, funcs, rets)
  d_with = build_director(ds, None, funcs, rets)
  rep0, line0 = verdict(d_without, qname, qline, qop)
  rep1, line1 = verdict(d_with, qname, qline, qop)
  matches = x["name"] == "*" or x["name"] == qname
  L, s = x["line"], x["s"]
  ok = True
  desc = "same"
  if all([rep0, line0 == L, matches]):
    # (1) the error reported on the directive's line is silenced
    ok = not rep1
    desc = "silenced"
  else:
    same = all([rep0 == rep1, line0 == line1])
    if not same:
      # (2) any other change must be explained by the documented mechanism
      starts = [L, s] + ([x["call"][0]] if x["call"] else [])
      touched = any([any([line0 == p for p in starts]),
                     any([line1 == p for p in starts])])
      ok = all([matches, touched])
      desc = "changed"
      if not ok and kf_skip(kf_class(d_without, d_with, qname, qop)):
        ok = True
  record("D %s | extra=%d nfun=%d ret=%d q=%s/%s -> %s N" % (
      ";".join("-" if d is None else "%d:%s" % (d["kind"], d["comment"].data)
               for d in ds), extra, nfun, len(rets), qname, qop, desc))
  return ok


def kf_class(d0, d1, qname, qop):
  """Recorded-finding class of a disagreement (or None)."""
  # pylint: disable=protected-access
  if (qname == "bad-return-type" and qop == "RETURN_VALUE" and
      d0._function_ranges._start_to_end != d1._function_ranges._start_to_end):
    return "implicit-return-shift"
  return None


def explain(fn, t):
  if fn != "h_director":
    return {"ops": list(t)}
  ds, extra = decode_directives(t)
  base = DW * ND
  def show(d):
    if d is None:
      return None
    return {"line": d["line"], "comment": "# %s: %s" % (d["comment"].tool, d["comment"].data),
            "stand_alone": d["comment"].open_ended, "statement": (d["s"], d["e"]),
            "call": d["call"]}
  nfun = t[base + 1]
  funcs = [(t[base + 2], t[base + 3]), (t[base + 4], t[base + 5])][:nfun]
  rets = [t[base + 7]] if t[base + 6] else []
  qname, qline, qop = NAMES[t[base + 8]], t[base + 9], OPCODES[t[base + 10]]
  d0 = build_director(ds, extra, funcs, rets)
  d1 = build_director(ds, None, funcs, rets)
  return {"directives": [show(d) for d in ds], "appended": extra,
          "function_ranges": funcs, "return_lines": rets,
          "raw_error": (qname, qline, qop),
          "without (reported, line)": verdict(d0, qname, qline, qop),
          "with (reported, line)": verdict(d1, qname, qline, qop)}


# ------------------------------------------------- h_source: the real parser too

# The same with/without differential, but the Directors are built from SOURCE
# TEXT through the real directors.parser (comment extraction, grouping of
# comments per statement / call range, function ranges, return lines).  The
# program is chosen among templates, the directives are placed by selectors,
# the raw error (class, line, opcode) stays symbolic.

TEMPLATES = [
    # 0: module-level statements, one multi-line call
    ["x = 1", "y = foo(x,", "        x)", "z = y.attr", ""],
    # 1: a function whose last statement spans two lines (implicit return)
    ["def f() -> int:", "  x = 1", "  print(x,", "        x)", "v = f()"],
    # 2: nested function, inner one ends in a multi-line statement
    ["def outer():", "  def inner() -> int:", "    x = 1", "    print(x,", "          x)",
     "  return inner", "w = outer()"],
    # 3: nested calls on several lines and an explicit return
    ["def g(a) -> int:", "  b = h(k(a),", "        a).m(", "      a)", "  return b", "u = g(1)"],
    # 4: decorated function and a multi-line assignment
    ["@deco", "def d() -> int:", "  t = (1 +", "       2)", "  q = t", "r = d()"],
    # 5: two functions, single-line bodies
    ["def p() -> int:", "  s = 1", "def q2() -> str:", "  s = 2", "o = p()"],
]
NTEMPL = param("C03_NTEMPL", quick=3, thorough=len(TEMPLATES))
SRC_PRIOR = param("C03_SRC_PRIOR", quick=0, thorough=1)
MAXLINES = max(len(t) for t in TEMPLATES)
SRC_NAMES = ["attribute-error", "bad-return-type"]
# template, prior kind (0 none, 1 trailing disable, 2 stand-alone disable, 3 stand-alone enable),
# prior name, prior line, appended kind (0 pytype disable, 1 type: ignore), appended name,
# appended line, qname, qline, qop
SRC_SEL = Tuple[(int,) * 10]


def src_ok(t):
  tm, pk, pn, pl, ak, an, al, qn, ql, qo = t
  return all([
      inrange(tm, 0, NTEMPL), inrange(pk, 0, 4 if SRC_PRIOR else 1),
      any([all([pk == 0, pn == 0, pl == 0]),
           all([pk != 0, inrange(pn, 0, 2), inrange(pl, 1, MAXLINES + 1)])]),
      inrange(ak, 0, 2), any([all([ak == 0, inrange(an, 0, 2)]), all([ak == 1, an == 0])]),
      inrange(al, 1, MAXLINES + 1), inrange(qn, 0, 2), inrange(ql, 0, MAXLINES + 2),
      inrange(qo, 0, 2)])


def src_key(t):
  return sum(w * x for w, x in zip(_W, t))


@untraced
def statement_starts_in_functions(src):
  """Oracle side (CPython ast): first lines of statements inside functions,
  the only lines an implicit `return None` can carry."""
  import ast  # pylint: disable=g-import-not-at-top
  out = set()
  for node in ast.walk(ast.parse(src)):
    if isinstance(node, (ast.FunctionDef, ast.AsyncFunctionDef)):
      for st in ast.walk(node):
        if isinstance(st, ast.stmt) and st is not node:
          out.add(st.lineno)
  return out


def make_source(lines, prior, appended):
  """Returns (source without the appended directive, with it, its line)."""
  lines = list(lines)
  extra_before = 0
  if prior is not None:
    kind, name, pl = prior
    if kind == 1:
      lines[pl - 1] += "  # pytype: disable=" + name
    else:
      indent = lines[pl - 1][:len(lines[pl - 1]) - len(lines[pl - 1].lstrip())]
      lines.insert(pl - 1, indent + "# pytype: %s=%s" % ("disable" if kind == 2 else "enable", name))
      extra_before = pl
  ak, name, al = appended
  if extra_before and al >= extra_before:
    al += 1
  base = "\n".join(lines) + "\n"
  lines[al - 1] += "  # type: ignore" if ak == 1 else "  # pytype: disable=" + name
  return base, "\n".join(lines) + "\n", al


def director_from_source(src):
  return directors.Director(directors.parse_src(src, (3, 12)), errors.VmErrorLog(None, src), FILENAME, ())


@untraced
def appended_start_lines(src, line):
  """Start lines of the statement / call ranges the comment on `line` was
  recorded in (the documented adjusted-start-line mechanism)."""
  visitor = parser.visit_src_tree(directors.parse_src(src, (3, 12)))
  out = []
  for rng, group in visitor.structured_comment_groups.items():
    if any(c.line == line for c in group):
      out.append(rng.start_line)
  return out


def h_source(t: SRC_SEL) -> bool:
  """
  pre: src_ok(t)
  pre: shard_ok(src_key(t))
  post: check_post(_)
  """
  lines = TEMPLATES[conc(t[0], NTEMPL)]
  n = len(lines)
  pk = conc(t[1], 4 if SRC_PRIOR else 1)
  prior = None
  if pk:
    pl = conc(t[3] - 1, MAXLINES) + 1
    if pl > n or not lines[pl - 1].strip():
      return True   # no such line in this template
    prior = (pk, SRC_NAMES[conc(t[2], 2)], pl)
  ak = conc(t[4], 2)
  al = conc(t[6] - 1, MAXLINES) + 1
  if al > n or not lines[al - 1].strip():
    return True
  aname = "*" if ak == 1 else SRC_NAMES[conc(t[5], 2)]
  src0, src1, L = make_source(lines, prior, (ak, aname, al))
  qname = SRC_NAMES[conc(t[7], 2)]
  qop = OPCODES[conc(t[9], 2)]
  qline = t[8]
  if qname == "bad-return-type" and qop == "RETURN_VALUE":
    # compiler guarantee: such an error comes from a statement start inside a function
    starts = statement_starts_in_functions(src0)
    if not any([qline == s for s in starts]):
      return True
  d0 = director_from_source(src0)
  d1 = director_from_source(src1)
  rep0, line0 = verdict(d0, qname, qline, qop)
  rep1, line1 = verdict(d1, qname, qline, qop)
  matches = aname == "*" or aname == qname
  ok = True
  desc = "same"
  if all([rep0, line0 == L, matches]):
    ok = not rep1
    desc = "silenced"
  else:
    same = all([rep0 == rep1, line0 == line1])
    if not same:
      starts = [L] + appended_start_lines(src1, L)
      touched = any([any([line0 == p for p in starts]), any([line1 == p for p in starts])])
      ok = all([matches, touched])
      desc = "changed"
      if not ok and kf_skip(kf_class(d0, d1, qname, qop)):
        ok = True
  record("S t%d prior=%r appended=%r q=%s/%s -> %s N" % (
      conc(t[0], NTEMPL), prior, (ak, aname, al), qname, qop, desc))
  return ok
