"""C18 — rewrite flow layer (conditions, variables, block state) under CrossHair.

Truth assignments of the atomic conditions are symbolic booleans; every
comparison between the real objects' meaning and the oracle is built as ONE
solver term (all/any/xor, no forks), so z3 decides "for every truth
assignment" in one query per path.  The syntactic shape of conditions and
states (which the code inspects with `is`, `==`, `in`) is decoded from
selectors by solver-decided forks.
"""

import dataclasses
from typing import Tuple

from vlib.prelude import (  # noqa
    record, shard_ok, check_post, TIER, param, conc, inrange, all_inrange,
    untraced)

from pytype.rewrite.flow import conditions as C
from pytype.rewrite.flow import state as S
from pytype.rewrite.flow import variables as V


@dataclasses.dataclass(frozen=True)
class Atom(C.Condition):
  name: str

  def __repr__(self):
    return self.name


ATOMS = [Atom("a"), Atom("b"), Atom("c")]
NU = Tuple[bool, bool, bool]


def neg(x):
  return x ^ True


def cev(cond, nu):
  """Meaning of a real Condition object under valuation nu (no forks)."""
  if cond is C.TRUE:
    return True
  if cond is C.FALSE:
    return False
  if isinstance(cond, Atom):
    return nu[ATOMS.index(cond)]
  if isinstance(cond, C._Not):  # pylint: disable=protected-access
    return neg(cev(cond.condition, nu))
  if isinstance(cond, C._And):  # pylint: disable=protected-access
    return all([cev(c, nu) for c in cond.conditions])
  if isinstance(cond, C._Or):  # pylint: disable=protected-access
    return any([cev(c, nu) for c in cond.conditions])
  raise AssertionError("not a condition: %r" % (cond,))


ALL_NU = [(x, y, z) for x in (False, True) for y in (False, True)
          for z in (False, True)]


@untraced
def implies_all(c1, c2):
  """c1 => c2 under every valuation (concrete conditions; truth table)."""
  for nu in ALL_NU:
    if cev(c1, nu) and not cev(c2, nu):
      return False
  return True


# ---------------------------------------------------------------- harness A

A_DEPTH = param("C18_A_DEPTH", quick=3, thorough=3)
A_ARITY_ROOT = param("C18_A_ARITY_ROOT", quick=2, thorough=2)
A_ARITY_MID = param("C18_A_ARITY_MID", quick=2, thorough=3)
A_NODES = sum(3**d for d in range(A_DEPTH))
A_FIRST_LEAF = sum(3**d for d in range(A_DEPTH - 1))
A_TREE = Tuple[(int,) * (2 * A_NODES)]

K_T, K_F, K_ATOM, K_NOT, K_AND, K_OR = range(6)


def a_tree_ok(t):
  conds = []
  for i in range(A_NODES):
    k, a = t[2 * i], t[2 * i + 1]
    conds.append(inrange(k, 0, 3 if i >= A_FIRST_LEAF else 6))
    conds.append(0 <= a)
    if i < A_FIRST_LEAF:
      arity = A_ARITY_ROOT if i == 0 else A_ARITY_MID
      conds.append(any([all([k >= K_AND, a <= arity]), all([k < K_AND, a < 3])]))
    else:
      conds.append(a < 3)
  return all(conds)


def a_decode(t, i=0):
  k = conc(t[2 * i], 3 if i >= A_FIRST_LEAF else 6)
  if k in (K_T, K_F):
    return (k, 0, ())
  if k == K_ATOM:
    return (k, conc(t[2 * i + 1], 3), ())
  if k == K_NOT:
    return (k, 0, (a_decode(t, 3 * i + 1),))
  n = conc(t[2 * i + 1], (A_ARITY_ROOT if i == 0 else A_ARITY_MID) + 1)
  return (k, n, tuple(a_decode(t, 3 * i + 1 + j) for j in range(n)))


def a_canon_ok(t):
  """Pins the leading selectors the decoder ignores to 0 (no forks)."""
  if A_FIRST_LEAF == 0:
    return True
  composite = t[0] >= K_AND
  return all([
      any([composite, t[0] == K_ATOM, t[1] == 0]),
      any([t[0] == K_NOT, all([composite, t[1] >= 1]), t[2] == 0]),
      any([all([composite, t[1] >= 2]), t[4] == 0]),
      any([all([composite, t[1] >= 3]), t[6] == 0]),
  ])


def a_shard_key(t):
  if A_FIRST_LEAF == 0:
    return t[0]
  return t[0] + 6 * (t[1] + 4 * (t[2] + 6 * (t[4] + 6 * t[6])))


def a_build(d):
  k, a, kids = d
  if k == K_T:
    return C.TRUE
  if k == K_F:
    return C.FALSE
  if k == K_ATOM:
    return ATOMS[a]
  if k == K_NOT:
    return C.Not(a_build(kids[0]))
  sub = [a_build(c) for c in kids]
  return C.And(*sub) if k == K_AND else C.Or(*sub)


def a_oracle(d, nu):
  k, a, kids = d
  if k == K_T:
    return True
  if k == K_F:
    return False
  if k == K_ATOM:
    return nu[a]
  if k == K_NOT:
    return neg(a_oracle(kids[0], nu))
  if k == K_AND:
    return all([a_oracle(c, nu) for c in kids])
  return any([a_oracle(c, nu) for c in kids])


def h_cond(t: A_TREE, nu: NU) -> bool:
  """
  pre: a_tree_ok(t)
  pre: a_canon_ok(t) and shard_ok(a_shard_key(t))
  post: check_post(_)
  """
  d = a_decode(t)
  term = a_build(d)
  ok = cev(term, nu) == a_oracle(d, nu)
  # documented identities
  if d[0] == K_NOT and d[2][0][0] == K_NOT:
    inner = a_build(d[2][0][2][0])
    ok = all([ok, term is inner])
  if d[0] == K_AND and d[1] == 0:
    ok = all([ok, term is C.TRUE])
  if d[0] == K_OR and d[1] == 0:
    ok = all([ok, term is C.FALSE])
  # structural equality/hash of independently rebuilt terms
  again = a_build(d)
  ok = all([ok, term == again, hash(term) == hash(again)])
  record("A %r %s" % (d, "N" if d[0] >= K_NOT else "T"))
  return ok


# ------------------------------------------------ shared universe for B, C, D

U_LEVEL = param("C18_U", quick=1, thorough=2)


def _universe(level):
  a, b, c = ATOMS
  na, nb = C.Not(a), C.Not(b)
  u = [C.TRUE, a, na]
  if level >= 0:
    u += [C.FALSE, b]
  if level >= 1:
    u += [C.And(a, b), C.Or(a, b)]
  if level >= 2:
    u += [nb, C.And(na, b), C.Or(na, nb), c, C.And(a, c)]
  return u


U = _universe(U_LEVEL)
NU_ = len(U)


# ---------------------------------------------------------------- harness B

B_SEL = Tuple[(int,) * 8]
B_MAXN = param("C18_B_MAXN", quick=2, thorough=3)


def h_var(s: B_SEL, nu: NU) -> bool:
  """
  pre: inrange(s[0], 0, B_MAXN + 1) and all_inrange(s[1:4], 0, NU_) and all_inrange(s[4:7], 0, 3) and inrange(s[7], 0, NU_)
  pre: any([s[0] >= 1, s[1] == 0]) and shard_ok(s[0] + (B_MAXN + 1) * (s[7] + NU_ * s[1]))
  post: check_post(_)
  """
  n = conc(s[0], B_MAXN + 1)
  conds = [U[conc(s[1 + i], NU_)] for i in range(n)]
  vals = [conc(s[4 + i], 3) for i in range(n)]
  c = U[conc(s[7], NU_)]
  var = V.Variable(tuple(V.Binding(v, k) for v, k in zip(vals, conds)), name="x")
  new = var.with_condition(c)
  ok = [len(new.bindings) == n, new.name == "x"]
  for i in range(n):
    ok.append(new.bindings[i].value == vals[i])
    ok.append(cev(new.bindings[i].condition, nu) ==
              all([cev(conds[i], nu), cev(c, nu)]))
  # the receiver is unchanged
  ok.append(var.bindings == tuple(V.Binding(v, k) for v, k in zip(vals, conds)))
  record("B %r %s" % ((n, [repr(x) for x in conds], vals, repr(c)),
                      "N" if n >= 1 else "T"))
  return all(ok)


# ------------------------------------------------------------ state semantics

NAMES = ["x", "y"]
VALUES = [1, 2]


@untraced
def inv_ok(st):
  """Representation invariant of BlockState (concrete conditions).

  For a name that is not implicitly guarded by the block condition, every
  binding condition implies the block condition.
  """
  # pylint: disable=protected-access
  for name, var in st._locals.items():
    if name in st._locals_with_block_condition:
      continue
    for b in var.bindings:
      if not implies_all(b.condition, st._condition):
        return False
  if not set(st._locals_with_block_condition) <= set(st._locals):
    return False
  return True


def active(st, name, value, nu):
  """Is `value` a possible value of `name` in state st under nu (one term)."""
  # pylint: disable=protected-access
  if name not in st._locals:
    return False
  hits = [cev(b.condition, nu) for b in st._locals[name].bindings
          if b.value == value]
  r = any(hits) if hits else False
  if name in st._locals_with_block_condition:
    r = all([r, cev(st._condition, nu)])
  return r


def decode_var(sel, off, n_u2):
  """Variable over VALUES from 4 selectors: present?, cond of value 1 (or none),
  cond of value 2 (or none; from the first n_u2 universe entries), order."""
  c1 = conc(sel[off], NU_ + 1)
  c2 = conc(sel[off + 1], n_u2 + 1)
  bs = []
  if c1 < NU_:
    bs.append(V.Binding(1, U[c1]))
  if c2 < n_u2:
    bs.append(V.Binding(2, U[c2]))
  if len(bs) == 2 and conc(sel[off + 2], 2) == 1:
    bs.reverse()
  return V.Variable(tuple(bs))


N_U2 = param("C18_U2", quick=2, thorough=3)  # universe prefix for the 2nd value


def decode_state(sel, off, names):
  """State over `names` from selectors: block cond + per name 5 selectors."""
  cond = U[conc(sel[off], NU_)]
  locals_ = {}
  implicit = set()
  p = off + 1
  for name in names:
    mode = conc(sel[p], 3)  # 0 absent, 1 implicit block condition, 2 explicit
    if mode != 0:
      locals_[name] = decode_var(sel, p + 1, N_U2)
      if mode == 1:
        implicit.add(name)
    p += 4
  return S.BlockState(locals_, cond, implicit)


def state_key(sel, off, names):
  """Always-decoded leading selectors of a state: block cond and modes."""
  key = [conc(sel[off], NU_)]
  p = off + 1
  for _ in names:
    key.append(conc(sel[p], 3))
    p += 4
  return key


def state_sel_ok(sel, off, names):
  conds = [inrange(sel[off], 0, NU_)]
  p = off + 1
  for _ in names:
    conds += [inrange(sel[p], 0, 3), inrange(sel[p + 1], 0, NU_ + 1),
              inrange(sel[p + 2], 0, N_U2 + 1), inrange(sel[p + 3], 0, 2)]
    p += 4
  return all(conds)


@untraced
def state_repr(st):
  # pylint: disable=protected-access
  return "(%r, %r, %r)" % (
      {k: repr(v) for k, v in st._locals.items()}, repr(st._condition),
      sorted(st._locals_with_block_condition))


@untraced
def snapshot(st):
  # pylint: disable=protected-access
  return (dict(st._locals), st._condition, set(st._locals_with_block_condition))


# --------------------------------------------------- harness C: one step, merge

M1_SEL = Tuple[(int,) * 10]


def h_merge1(sel: M1_SEL, nu: NU) -> bool:
  """
  pre: state_sel_ok(sel, 0, NAMES[:1]) and state_sel_ok(sel, 5, NAMES[:1])
  pre: shard_ok(sel[0] + NU_ * (sel[1] + 3 * (sel[5] + NU_ * sel[6])))
  post: check_post(_)
  """
  a = decode_state(sel, 0, NAMES[:1])
  b = decode_state(sel, 5, NAMES[:1])
  if not (inv_ok(a) and inv_ok(b)):
    return True  # pre-state outside the representation invariant
  return _check_merge(a, b, nu, "C1")


M2_SEL = Tuple[(int,) * 18]


def h_merge2(sel: M2_SEL, nu: NU) -> bool:
  """
  pre: state_sel_ok(sel, 0, NAMES) and state_sel_ok(sel, 9, NAMES)
  pre: shard_ok(sel[0] + NU_ * (sel[1] + 3 * (sel[5] + 3 * (sel[9] + NU_ * (sel[10] + 3 * sel[14])))))
  post: check_post(_)
  """
  a = decode_state(sel, 0, NAMES)
  b = decode_state(sel, 9, NAMES)
  if not (inv_ok(a) and inv_ok(b)):
    return True
  return _check_merge(a, b, nu, "C2")


def _check_merge(a, b, nu, tag):
  # pylint: disable=protected-access
  sa, sb = snapshot(a), snapshot(b)
  ra, rb = state_repr(a), state_repr(b)
  m = a.merge_into(b)
  ok = [cev(m._condition, nu) == any([cev(a._condition, nu),
                                      cev(b._condition, nu)])]
  for name in NAMES:
    for value in VALUES:
      ok.append(active(m, name, value, nu) ==
                any([active(a, name, value, nu), active(b, name, value, nu)]))
  ok.append(inv_ok(m))
  ok.append(set(m._locals) == set(a._locals) | set(b._locals))
  # inputs are not modified and the result does not alias their containers
  ok.append(snapshot(a) == sa and snapshot(b) == sb)
  ok.append(m._locals is not a._locals and m._locals is not b._locals)
  ok.append(m._locals_with_block_condition is not a._locals_with_block_condition)
  ok.append(m._locals_with_block_condition is not b._locals_with_block_condition)
  nt = bool(a._locals) and bool(b._locals)
  record("%s %s + %s %s" % (tag, ra, rb, "N" if nt else "T"))
  return all(ok)


# -------------------------------- harness C: one step, with_condition / store

W_SEL = Tuple[(int,) * 14]


def h_step(sel: W_SEL, nu: NU) -> bool:
  """
  pre: shard_ok(sel[0] + NU_ * (sel[1] + 3 * (sel[5] + 3 * sel[10])))
  pre: state_sel_ok(sel, 0, NAMES) and inrange(sel[9], 0, NU_) and inrange(sel[10], 0, 3) and inrange(sel[11], 0, 2) and inrange(sel[12], 0, 2) and inrange(sel[13], 0, NU_)
  post: check_post(_)
  """
  # pylint: disable=protected-access
  op = conc(sel[10], 3)
  a = decode_state(sel, 0, NAMES)
  if not inv_ok(a):
    return True
  ra = state_repr(a)
  ok = []
  if op == 0:  # with_condition(c)
    c = U[conc(sel[9], NU_)]
    sa = snapshot(a)
    w = a.with_condition(c)
    ok.append(cev(w._condition, nu) == all([cev(a._condition, nu), cev(c, nu)]))
    for name in NAMES:
      for value in VALUES:
        ok.append(active(w, name, value, nu) ==
                  all([active(a, name, value, nu), cev(c, nu)]))
    ok.append(inv_ok(w))
    ok.append(snapshot(a) == sa)
    ok.append(w._locals is not a._locals)
    ok.append(w._locals_with_block_condition is not a._locals_with_block_condition)
    desc = "with_condition(%r)" % (c,)
  elif op == 1:  # store_local(name, var)
    name = NAMES[conc(sel[11], 2)]
    other = NAMES[1 - NAMES.index(name)]
    value = VALUES[conc(sel[12], 2)]
    bc = U[conc(sel[13], NU_)]
    var = V.Variable((V.Binding(value, bc),))
    before_other = [active(a, other, v, nu) for v in VALUES]
    cond_before = a._condition
    a.store_local(name, var)
    for v in VALUES:
      ok.append(active(a, name, v, nu) ==
                (all([cev(bc, nu), cev(cond_before, nu)]) if v == value else False))
    for i, v in enumerate(VALUES):
      ok.append(active(a, other, v, nu) == before_other[i])
    ok.append(a._condition is cond_before)
    ok.append(inv_ok(a))
    ok.append(a.load_local(name).bindings == var.bindings)
    ok.append(a.load_local(name).name == name)
    desc = "store_local(%s, %r)" % (name, var)
  else:  # merge_into(None) and get_locals
    sa = snapshot(a)
    m = a.merge_into(None)
    ok.append(cev(m._condition, nu) == cev(a._condition, nu))
    for name in NAMES:
      for value in VALUES:
        ok.append(active(m, name, value, nu) == active(a, name, value, nu))
    ok.append(inv_ok(m))
    ok.append(m._locals is not a._locals)
    ok.append(m._locals_with_block_condition is not a._locals_with_block_condition)
    ok.append(dict(a.get_locals()) == sa[0])
    desc = "merge_into(None)"
  record("W %s . %s %s" % (ra, desc, "N" if a._locals else "T"))
  return all(ok)


# ----------------------------------------------------- harness D: histories

H_PREFIX = param("C18_H_PREFIX", quick=1, thorough=2)
H_TRACK = param("C18_H_TRACK", quick=1, thorough=2)
H_OPS = H_PREFIX + 2 * H_TRACK
H_SEL = Tuple[(int,) * (3 * H_OPS + 3)]
HU = _universe(param("C18_HU", quick=-1, thorough=-1))


class Model:
  """Independent meaning of a block state: name -> value -> truth under nu."""

  def __init__(self):
    self.cond = True
    self.vals = {}

  def copy(self):
    m = Model()
    m.cond = self.cond
    m.vals = {k: dict(v) for k, v in self.vals.items()}
    return m

  def store(self, name, value):
    self.vals[name] = {value: self.cond}

  def with_condition(self, c):
    m = self.copy()
    m.cond = all([m.cond, c])
    for d in m.vals.values():
      for v in d:
        d[v] = all([d[v], c])
    return m

  def merge(self, other):
    m = Model()
    m.cond = any([self.cond, other.cond])
    for name in set(self.vals) | set(other.vals):
      d = {}
      for v in VALUES:
        d[v] = any([self.vals.get(name, {}).get(v, False),
                    other.vals.get(name, {}).get(v, False)])
      m.vals[name] = d
    return m


def agrees(st, model, nu):
  # pylint: disable=protected-access
  ok = [cev(st._condition, nu) == model.cond, inv_ok(st)]
  for name in NAMES:
    for v in VALUES:
      ok.append(active(st, name, v, nu) ==
                model.vals.get(name, {}).get(v, False))
  return all(ok)


def _apply_ops(st, model, sel, first, count, nu, trace):
  """Applies `count` ops (store / with_condition / nop) to (st, model)."""
  ok = []
  for i in range(first, first + count):
    op = conc(sel[3 * i], 3)
    if op == 0:
      name = NAMES[conc(sel[3 * i + 1], 2)]
      value = VALUES[conc(sel[3 * i + 2], 2)]
      st.store_local(name, V.Variable.from_value(value))
      model.store(name, value)
      trace.append("store(%s,%d)" % (name, value))
    elif op == 1:
      c = HU[conc(sel[3 * i + 1], len(HU))]
      st = st.with_condition(c)
      model = model.with_condition(cev(c, nu))
      trace.append("with_condition(%r)" % (c,))
    else:
      trace.append("nop")
    ok.append(agrees(st, model, nu))
  return st, model, ok


def hist_sel_ok(sel):
  conds = []
  for i in range(H_OPS):
    conds += [inrange(sel[3 * i], 0, 3), inrange(sel[3 * i + 1], 0, len(HU)),
              inrange(sel[3 * i + 2], 0, 2)]
  conds += [inrange(sel[3 * H_OPS], 0, len(HU)),
            inrange(sel[3 * H_OPS + 1], 0, len(HU)),
            inrange(sel[3 * H_OPS + 2], 0, 2)]
  return all(conds)


def h_hist(sel: H_SEL, nu: NU) -> bool:
  """
  pre: hist_sel_ok(sel)
  pre: shard_ok(sel[0] + 3 * (sel[3 * H_PREFIX] + 3 * (sel[3 * (H_PREFIX + H_TRACK)] + 3 * (sel[3 * H_OPS] + len(HU) * sel[3 * H_OPS + 1]))))
  post: check_post(_)
  """
  trace = []
  st = S.BlockState({})
  model = Model()
  st, model, ok = _apply_ops(st, model, sel, 0, H_PREFIX, nu, trace)
  ca = HU[conc(sel[3 * H_OPS], len(HU))]
  cb = HU[conc(sel[3 * H_OPS + 1], len(HU))]
  a, ma = st.with_condition(ca), model.with_condition(cev(ca, nu))
  trace.append("A=S.with_condition(%r)" % (ca,))
  a, ma, ok_a = _apply_ops(a, ma, sel, H_PREFIX, H_TRACK, nu, trace)
  # the common ancestor must be unaffected by what happened on track A
  ok.append(agrees(st, model, nu))
  b, mb = st.with_condition(cb), model.with_condition(cev(cb, nu))
  trace.append("B=S.with_condition(%r)" % (cb,))
  b, mb, ok_b = _apply_ops(b, mb, sel, H_PREFIX + H_TRACK, H_TRACK, nu, trace)
  ok.append(agrees(a, ma, nu))
  if conc(sel[3 * H_OPS + 2], 2) == 0:
    m, mm = a.merge_into(b), ma.merge(mb)
    trace.append("A.merge_into(B)")
  else:
    m, mm = b.merge_into(a), mb.merge(ma)
    trace.append("B.merge_into(A)")
  ok.append(agrees(m, mm, nu))
  # a later store into the merged state must not leak into its inputs
  m.store_local("x", V.Variable.from_value(2))
  ok += [agrees(a, ma, nu), agrees(b, mb, nu)]
  nstores = sum(1 for t in trace if t.startswith("store"))
  record("D %s %s" % (";".join(trace), "N" if nstores >= 2 else "T"))
  return all(ok + ok_a + ok_b)
