"""C19 — whole-project build plan (pytype/tools/analyze_project/pytype_runner.py).

Harness A (h_plan): a symbolic import graph (adjacency bits, module kinds) is
pushed through the real deps_from_import_graph and PytypeRunner.setup_build;
the emitted build.ninja and .imports files (captured in an in-memory file
table) are parsed back with an independent model of ninja's lexer and the
real imports-map reader, and the plan properties are asserted.  "Every
schedule ninja may choose" is discharged by one transitive-closure
computation: ninja starts a statement only after all its transitive inputs
are built, so "no schedule reads a stub before it is written" <=> every file
an analysis reads is default.pyi or the output of a statement in the
transitive closure of its declared dependencies.

Harness B (h_escape, h_imports_line): symbolic path strings.
"""

from typing import Tuple

from vlib.prelude import (  # noqa
    record, shard_ok, check_post, TIER, param, conc, inrange, all_inrange,
    untraced)

from importlab import graph as importlab_graph
from importlab import resolve as importlab_resolve
from pytype import file_utils
from pytype import imports_map_loader
from pytype.tools.analyze_project import pytype_runner

N = param("C19_N", quick=3, thorough=4)
NKINDS = param("C19_NKINDS", quick=5, thorough=5)
DAG = param("C19_DAG", quick=0, thorough=0)          # 1: only edges i -> j with j < i
ALL_DIRECT = param("C19_ALL_DIRECT", quick=0, thorough=0)  # 1: every module is requested
NEDGES = N * (N - 1) // 2 if DAG else N * (N - 1)
SEL = Tuple[(int,) * (N + NEDGES)]

K_DIRECT, K_LOCAL, K_BUILTIN, K_SYSTEM, K_EXT, K_STUB = range(6)
KIND_NAMES = ["Direct", "Local", "Builtin", "System", "System(pytype_extensions)",
              "Local stub (.pyi)"]

# Directory names with every special character, alone and adjacent to each
# other (`$ `, `$:`, `$$`, ` :`), so that escaping is exercised in context.
PROJ = "/proj dir/$ x$$y"
SYS = "/sys:lib$:z"
OUT = "/out dir/$o:1 :$"


def sel_ok(s):
  if ALL_DIRECT:
    return all([all([k == K_DIRECT for k in s[:N]]), all_inrange(s[N:], 0, 2)])
  return all([all_inrange(s[:N], 0, NKINDS), all_inrange(s[N:], 0, 2),
              any([k == K_DIRECT for k in s[:N]])])


def shard_key(s):
  key = 0
  for x in s[:N]:
    key = key * 6 + x
  for x in s[N:N + (10 if ALL_DIRECT else 4)]:
    key = key * 2 + x
  return key


def decode(s):
  kinds = tuple(conc(s[i], NKINDS) for i in range(N))
  edges = []
  p = N
  for i in range(N):
    for j in range(N):
      if i != j and (j < i or not DAG):
        if conc(s[p], 2):
          edges.append((i, j))
        p += 1
  return kinds, tuple(edges)


def mod_name(i, kind):
  return ("pytype_extensions.m%d" if kind == K_EXT else "m%d") % i


def mod_path(i, kind):
  if kind in (K_DIRECT, K_LOCAL):
    return "%s/m%d.py" % (PROJ, i)
  if kind == K_STUB:
    return "%s/m%d.pyi" % (PROJ, i)
  if kind == K_EXT:
    return "%s/pytype_extensions/m%d.py" % (SYS, i)
  return "%s/m%d.py" % (SYS, i)


@untraced
def make_graph(kinds, edges):
  """A real importlab DependencyGraph (third-party code, run untraced)."""
  g = importlab_graph.DependencyGraph()
  for i, k in enumerate(kinds):
    path = mod_path(i, k)
    g.graph.add_node(path)
    name = mod_name(i, k)
    if k == K_DIRECT:
      g.provenance[path] = importlab_resolve.Direct(path, name)
      g.sources.add(path)
    elif k in (K_LOCAL, K_STUB):
      g.provenance[path] = importlab_resolve.Local(path, name, None)
    elif k == K_BUILTIN:
      g.provenance[path] = importlab_resolve.Builtin(path, name)
    else:
      g.provenance[path] = importlab_resolve.System(path, name)
  for i, j in edges:
    g.graph.add_edge(mod_path(i, kinds[i]), mod_path(j, kinds[j]))
  g.build()
  # importlab / networkx are third-party: their code runs outside the tracer
  # (networkx lazily exec()s decorated functions, which cannot run traced).
  g.deps_list = untraced(g.deps_list)
  return g


def make_conf(inputs):
  """Stand-in for analyze_project.config.Config: the documented fields."""
  return type("Conf", (), dict(
      __slots__=(), inputs=set(inputs), python_version="3.12", platform="linux",
      output=OUT, keep_going=False, jobs=1))()


class _Writer:
  """Pure-Python text file (keeps symbolic strings symbolic)."""

  def __init__(self, table, path, initial):
    self.table, self.path, self.parts = table, path, [initial]

  def write(self, text):
    self.parts.append(text)

  def close(self):
    self.table.files[self.path] = "".join(self.parts)

  def __enter__(self):
    return self

  def __exit__(self, *a):
    self.close()


class _Reader:

  def __init__(self, text):
    self.text = text

  def __iter__(self):
    lines = self.text.split("\n")
    for i, line in enumerate(lines):
      if i < len(lines) - 1:
        yield line + "\n"
      elif line:
        yield line

  def read(self):
    return self.text

  def __enter__(self):
    return self

  def __exit__(self, *a):
    pass


class FileTable:
  """In-memory replacement for open()/makedirs (stub, listed in evidence)."""

  def __init__(self):
    self.files = {}

  def open(self, path, mode="r"):
    if "w" in mode:
      return _Writer(self, path, "")
    if "a" in mode:
      return _Writer(self, path, self.files.get(path, ""))
    return _Reader(self.files[path])


def ninja_lex(line):
  """Independent model of ninja's path lexer for one `build` line.

  Returns (outputs, rule, inputs, implicit) with $-escapes resolved.
  `$ ` `$:` `$$` `$\\n` are the escapes; bare space / colon / newline / `|`
  terminate a path.
  """
  assert line.startswith("build ")
  i = len("build ")
  sections = [[]]
  cur = ""
  have = False

  def flush():
    nonlocal cur, have
    if have:
      sections[-1].append(cur)
    cur, have = "", False

  while i < len(line):
    c = line[i]
    if c == "$":
      nxt = line[i + 1] if i + 1 < len(line) else ""
      if nxt in (" ", ":", "$", "\n"):
        cur += nxt
        have = True
        i += 2
        continue
      raise ValueError("variable reference or bad escape in path: %r" % line)
    if c == " ":
      flush()
    elif c == ":":
      flush()
      sections.append([])
    elif c == "|":
      flush()
      sections.append([])
    elif c == "\n":
      flush()
      break
    else:
      cur += c
      have = True
    i += 1
  flush()
  if len(sections) == 2:
    sections.append([])
  outputs, rest, implicit = sections[0], sections[1], sections[2]
  return outputs, rest[0], rest[1:], implicit


def ninja_unescape_value(v):
  out = ""
  i = 0
  while i < len(v):
    if v[i] == "$" and i + 1 < len(v) and v[i + 1] in " :$":
      out += v[i + 1]
      i += 2
    else:
      out += v[i]
      i += 1
  return out


def parse_ninja(text):
  stmts = []
  for line in text.split("\n"):
    if line.startswith("build "):
      outs, rule, ins, implicit = ninja_lex(line + "\n")
      stmts.append({"outputs": outs, "rule": rule, "inputs": ins,
                    "implicit": implicit, "vars": {}})
    elif line.startswith("  ") and stmts and " = " in line:
      if stmts[-1] is not None:
        k, v = line.strip().split(" = ", 1)
        stmts[-1]["vars"][k] = ninja_unescape_value(v)
    elif line.startswith("rule "):
      stmts.append(None)  # variables of a rule block are not statement vars
  return [s for s in stmts if s is not None]


class _Opts:

  def __init__(self, table):
    self.open_function = table.open


def run_plan(kinds, edges):
  """Runs the real planner; returns (statements, table, default_pyi, requested)."""
  table = FileTable()
  saved_open = getattr(pytype_runner, "open", None)
  saved_mk = file_utils.makedirs
  pytype_runner.open = table.open
  file_utils.makedirs = lambda path: None
  try:
    g = make_graph(kinds, edges)
    deps = pytype_runner.deps_from_import_graph(g)
    requested = [mod_path(i, k) for i, k in enumerate(kinds) if k == K_DIRECT]
    runner = pytype_runner.PytypeRunner(make_conf(requested), deps)
    runner.setup_build()
  finally:
    if saved_open is None:
      del pytype_runner.open
    else:
      pytype_runner.open = saved_open
    file_utils.makedirs = saved_mk
  stmts = parse_ninja(table.files[OUT + "/build.ninja"])
  return stmts, table, OUT + "/imports/default.pyi", requested


def check_plan(kinds, edges):
  """Returns a list of problems (empty = plan properties hold)."""
  problems = []
  stmts, table, default_pyi, requested = run_plan(kinds, edges)
  by_output = {}
  for st in stmts:
    if len(st["outputs"]) != 1 or len(st["inputs"]) != 1:
      problems.append("statement without exactly one output/input: %r" % st)
      continue
    out = st["outputs"][0]
    if out in by_output:
      problems.append("duplicate output %s" % out)
    by_output[out] = st
    if st["rule"] not in ("infer", "check"):
      problems.append("unknown rule %r" % st["rule"])
  # (1) each requested source checked exactly once, nothing else checked
  checked = [st["inputs"][0] for st in stmts if st["rule"] == "check"]
  if sorted(checked) != sorted(requested):
    problems.append("checked %r, requested %r" % (sorted(checked), sorted(requested)))
  # inputs are real module paths, module variable is the module's name
  # type stubs in the import graph are not analysed: no statement, never an input
  path_to_idx = {mod_path(i, k): i for i, k in enumerate(kinds) if k != K_STUB}
  for st in stmts:
    src = st["inputs"][0] if st["inputs"] else None
    if src not in path_to_idx:
      problems.append("input %r is not a module path" % src)
    elif st["vars"].get("module") != mod_name(path_to_idx[src], kinds[path_to_idx[src]]):
      problems.append("module var %r for %s" % (st["vars"].get("module"), src))
  # (2) declared deps are outputs of statements; acyclic
  for st in stmts:
    for d in st["implicit"]:
      if d not in by_output:
        problems.append("declared dependency %s of %s is not produced by any "
                        "statement" % (d, st["outputs"][0]))
  closure = {}

  def reach(out, stack):
    if out in closure:
      return closure[out]
    if out in stack:
      problems.append("dependency cycle through %s" % out)
      return set()
    acc = set()
    for d in by_output[out]["implicit"] if out in by_output else ():
      acc.add(d)
      acc |= reach(d, stack | {out})
    closure[out] = acc
    return acc

  builder = imports_map_loader.ImportsMapBuilder(_Opts(table))
  for out, st in by_output.items():
    before = reach(out, frozenset())
    imports_path = st["vars"].get("imports")
    if imports_path not in table.files:
      problems.append("imports file %r of %s was not written" % (imports_path, out))
      continue
    items = builder._read_from_file(imports_path)  # pylint: disable=protected-access
    # (3) every stub the analysis may read exists before it starts
    for short, full in items:
      if full != default_pyi and full not in before:
        problems.append("%s reads %s (as %s) which no declared (transitive) "
                        "dependency produces" % (out, full, short))
    # completeness: every direct import of the module has an entry
    src = st["inputs"][0]
    if src in path_to_idx and not out.endswith(pytype_runner.FIRST_PASS_SUFFIX):
      i = path_to_idx[src]
      shorts = {s for s, _ in items}
      # direct imports, looking through type stubs (a source that imports a stub
      # inherits the stub's source dependencies)
      wanted, todo, seen = set(), [i], {i}
      while todo:
        a = todo.pop()
        for (x, b) in edges:
          if x == a and b not in seen:
            seen.add(b)
            if kinds[b] == K_STUB:
              todo.append(b)
            else:
              wanted.add(b)
      for b in sorted(wanted):
        want = mod_name(b, kinds[b]).replace(".", "/")
        if want not in shorts:
          problems.append("%s imports %s but its imports map has no entry "
                          "%s" % (out, mod_name(b, kinds[b]), want))
  return problems


def h_plan(s: SEL) -> bool:
  """
  pre: sel_ok(s)
  pre: shard_ok(shard_key(s))
  post: check_post(_)
  """
  kinds, edges = decode(s)
  problems = check_plan(kinds, edges)
  nt = len(edges) >= 2
  record("P %r %r %s" % ([KIND_NAMES[k] for k in kinds], edges,
                         "N" if nt else "T"))
  return not problems


# ---------------------------------------------------------------- harness B

MAXLEN = param("C19_STRLEN", quick=4, thorough=6)
ILEN = param("C19_ILEN", quick=3, thorough=4)
BAD_PATH_CHARS = "\n\r|"   # no ninja escape exists for these (outside the claim)
EOL_CHARS = "\n\r"
ALPHABET = " :$a/\t"
WS = " \t"


def str_shard_key(p):
  return len(p) + (ord(p[0]) + 3 * ord(p[len(p) - 1]) if len(p) else 0)


def h_escape(p: str) -> bool:
  """
  pre: len(p) <= MAXLEN
  pre: all([c not in p for c in BAD_PATH_CHARS])
  pre: shard_ok(str_shard_key(p))
  post: check_post(_)
  """
  # A build line as write_build_statement writes it, with p as the output and
  # as a declared dependency; and p as the value of the `imports` variable.
  esc = pytype_runner.escape_ninja_path
  if len(p) == 0:
    return esc(p) == ""
  line = "build %s: infer x | %s\n" % (esc(p), esc(p))
  outs, rule, ins, implicit = ninja_lex(line)
  return all([outs == [p], rule == "infer", ins == ["x"], implicit == [p],
              ninja_unescape_value(esc(p)) == p])


def _battery():
  out = [""]
  for n in range(1, 4):
    out += ["".join(t) for t in __import__("itertools").product(" :$a", repeat=n)]
  return out


BATTERY = _battery()
# computed at import time, i.e. by CPython's own `re`, before any tracing
NATIVE_ESCAPE = [pytype_runner.escape_ninja_path(x) for x in BATTERY]


def h_escape_model(i: int) -> bool:
  """
  pre: 0 <= i < len(BATTERY)
  post: check_post(_)
  """
  # Translator validation: CrossHair's regex model (active under tracing) must
  # agree with CPython's `re` on the battery; a disagreement shows up as a
  # counterexample that does not reproduce untraced, i.e. a harness error.
  j = conc(i, len(BATTERY))
  return pytype_runner.escape_ninja_path(BATTERY[j]) == NATIVE_ESCAPE[j]


def h_imports_line(full: str) -> bool:
  """
  pre: 1 <= len(full) <= ILEN
  pre: all([c in ALPHABET for c in full])
  pre: full[0] not in WS and full[len(full) - 1] not in WS
  post: check_post(_)
  """
  # The .imports writer and the real reader agree on (short path, full path)
  # for full paths containing spaces, colons and dollars.
  short = "pkg/m0"
  table = FileTable()
  runner = pytype_runner.PytypeRunner.__new__(pytype_runner.PytypeRunner)
  runner.imports_dir = OUT + "/imports"
  saved_open = getattr(pytype_runner, "open", None)
  pytype_runner.open = table.open
  try:
    path = runner.write_imports("m", {short: full, "other": "/x y.pyi"}, "")
  finally:
    if saved_open is None:
      del pytype_runner.open
    else:
      pytype_runner.open = saved_open
  builder = imports_map_loader.ImportsMapBuilder(_Opts(table))
  items = builder._read_from_file(path)  # pylint: disable=protected-access
  return items == [(short, full), ("other", "/x y.pyi")]


def explain(fn, *args):
  if fn == "h_plan":
    kinds, edges = decode(args[0])
    return {"kinds": [KIND_NAMES[k] for k in kinds],
            "imports (i imports j)": edges,
            "problems": check_plan(kinds, edges)}
  return {"args": [repr(a) for a in args]}
