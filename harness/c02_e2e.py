"""C02 harness validation: kernel verdicts vs the full pipeline (concrete runs).

NOT a deciding step.  For a stride of the (annotation, value) pairs one program
with a real call f_i(<expr>), a real `return <expr>` from an annotated function
and a real annotated assignment per pair is analysed by io.check_py, and the
lines on which the pipeline reports an error are compared with what the three
kernel entry points called by harness/c02.py report for the same pair.  A
disagreement means the harness misrepresents the enforcement sites: harness
error (exit 3), never a VIOLATION.

usage: python -m harness.c02_e2e STRIDE OFFSET
"""
import re
import sys

from harness import c02
from pytype import config
from pytype import io


def main():
  stride, off = int(sys.argv[1]), int(sys.argv[2])
  lines = c02.PRELUDE.rstrip("\n").split("\n")
  for i, t in enumerate(c02.GRAMMAR):
    lines.append("def f%d(x: %s): pass" % (i, c02.spell(t)))
  where = {}   # line number -> (site, i, j)
  n = 0
  for i, t in enumerate(c02.GRAMMAR):
    for j, e in enumerate(c02.VALUES):
      n += 1
      if n % stride != off or c02.excluded(c02.RUNTIME[j], t):
        continue
      lines.append("f%d(%s)" % (i, e))
      where[len(lines)] = ("arg", i, j)
      lines.append("def r%d_%d() -> %s:" % (i, j, c02.spell(t)))
      lines.append("  return %s" % e)
      where[len(lines)] = ("ret", i, j)
      lines.append("a%d_%d: %s = %s" % (i, j, c02.spell(t), e))
      where[len(lines)] = ("asg", i, j)
  src = "\n".join(lines) + "\n"
  # kernel verdicts first: a second analysis in this process leaves pytype's
  # process-wide caches pointing at the other typegraph
  kernel_at = {}
  for ln, (site, i, j) in sorted(where.items()):
    arg_err, (ret_bad, _), asg_n = c02.sites(i, j)
    kernel_at[ln] = {"arg": arg_err is True or (isinstance(arg_err, tuple) and arg_err[0]),
                     "ret": ret_bad, "asg": asg_n > 0}[site]
  ret = io.check_py(src, options=config.Options.create(python_version=(3, 12)))
  flagged = {e.line for e in ret.context.errorlog}
  stray = sorted(flagged - set(where))
  bad = []
  for ln, (site, i, j) in sorted(where.items()):
    kernel = kernel_at[ln]
    if kernel != (ln in flagged):
      bad.append((site, c02.spell(c02.GRAMMAR[i]), c02.VALUES[j], "kernel=%s pipeline=%s" % (kernel, ln in flagged)))
  print("C02-E2E sites=%d disagreements=%d stray_error_lines=%d" % (len(where), len(bad), len(stray)))
  for b in bad[:20]:
    print("  DISAGREE", b)
  for ln in stray[:10]:
    print("  STRAY line %d: %s" % (ln, lines[ln - 1]))
  sys.exit(3 if bad or stray else 0)


if __name__ == "__main__":
  main()
