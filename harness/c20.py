"""C20 — merge-pyi changes annotations only, under CrossHair.

A (program, stub) pair is generated from symbolic selectors; the real
merge_pyi.merge_sources runs on it with pytype's own code traced: the wiring in
merge_sources, RemoveAnyNeverTransformer and RemoveTrivialTypesTransformer
(driven through libcst's visitor dispatch).  libcst's native parser and its
ApplyTypeAnnotationsVisitor codemod (third-party) run as the environment:
`_merge_csts` -- pytype's three-line call into the codemod -- is real code but
executes outside the tracer (under the tracer the codemod dies in
inspect.getmembers on CrossHair's shell sets).

Oracle (the property statement, evaluated with CPython's ast on the output):
  1. the merged source compiles;
  2. after removing annotations, the typing imports and TypeVar definitions the
     merge added, its AST equals the original's;
  3. existing annotations are kept;
  4. every inserted annotation is the one the stub gives for that definition;
  5. no bare Any / Never is inserted as a return or variable annotation.
"""

import ast
from typing import Tuple

from vlib.prelude import (  # noqa
    record, shard_ok, check_post, TIER, param, conc, inrange, all_inrange,
    untraced, kf_skip)

from pytype.tools.merge_pyi import merge_pyi

FAMILY = param("C20_FAMILY", quick=0, thorough=0)   # 0: module level, 1: class level

merge_pyi._merge_csts = untraced(merge_pyi._merge_csts)  # pylint: disable=protected-access

VAR_TYPES = [None, "str", "list[int]", "Any", "Never", "Optional[int]"]
PARAM_TYPES = ["int", "Any", "T", "Decimal", "list[int]", "Optional[int]"]
NPT = param("C20_NPT", quick=len(PARAM_TYPES), thorough=len(PARAM_TYPES))   # class family: first NPT parameter types
RET_TYPES = ["int", "Any", "Never", "list[int]", "T", None]
NFUNC = 6
TRIVIAL = ("int", "str", "float", "bool", "complex")

if FAMILY == 0:
  RANGES = [3, len(VAR_TYPES), NFUNC, len(PARAM_TYPES), len(RET_TYPES)]
else:
  # last selector: 0 = first merge of the process state, 1 = preceded by the
  # merge of a fixed pair whose stub needs a non-typing import (the merged text
  # of a pair must not depend on what was merged before it)
  # cform 4: the program already carries bare-Any annotations; hdr: 0 = the stub imports from typing,
  # 1 = from typing_extensions
  RANGES = [5, 4, NPT, len(RET_TYPES), 2, 2, 2]
SEL = Tuple[(int,) * len(RANGES)]


def sel_ok(s):
  return all([inrange(x, 0, r) for x, r in zip(s, RANGES)])


def shard_key(s):
  key = 0
  for x, r in zip(s, RANGES):
    key = key * r + x
  return key


def _typing_names(types):
  names = set()
  for t in types:
    if not t:
      continue
    for n in ("Any", "Never", "Optional"):
      if n in t:
        names.add(n)
    if t == "T":
      names.add("TypeVar")
  return sorted(names)


def _stub_header(types, module="typing"):
  names = _typing_names(types)
  out = ""
  if names:
    out += "from %s import %s\n" % (module, ", ".join(names))
  if "TypeVar" in names:
    out += "T = TypeVar('T')\n"
  if "Decimal" in [t for t in types if t]:
    out += "from decimal import Decimal\n"
  return out


def build(d):
  """(program text, stub text, expected {target: annotation or None},
       existing {target: annotation})"""
  exp, existing = {}, {}
  if FAMILY == 0:
    vform, vt, fform, pt, rt = d
    ptype, rtype, vtype = PARAM_TYPES[pt], RET_TYPES[rt], VAR_TYPES[vt]
    py, pyi = "", ""
    used = [ptype, rtype]
    if vform:
      py += "z = g()\n" if vform == 1 else "z: int = g()\n"
      if vform == 2:
        existing["z"] = "int"
      if vtype:
        used.append(vtype)
    deco = "@dec\n" if fform == 3 else ""
    kw = "async def" if fform == 5 else "def"
    if fform == 1:
      sig, existing["f.x"] = "x: str, y=1", "str"
    elif fform == 2:
      sig = "x, *args, **kw"
    else:
      sig = "x, y=1"
    if fform == 4:
      body = "  def inner(a):\n    return a\n  return inner(x)\n"
    else:
      body = "  return h(x)\n"
    py += "%s%s f(%s):\n%s" % (deco, kw, sig, body)
    if fform == 2:
      ssig = "x: %s, *args: int, **kw: str" % ptype
      exp["f.args"], exp["f.kw"] = "int", "str"
    else:
      ssig = "x: %s, y: int = ..." % ptype
      exp["f.y"] = "int"
    exp["f.x"] = existing.get("f.x", ptype)
    exp["f.return"] = None if rtype in ("Any", "Never", None) else rtype
    pyi = _stub_header(used)
    if vform and vtype:
      pyi += "z: %s\n" % vtype
    if vform:
      if vform == 2:
        exp["z"] = "int"
      elif vtype in (None, "Any", "Never") or vtype in TRIVIAL:
        exp["z"] = None
      else:
        exp["z"] = vtype
    pyi += "%s f(%s)%s: ...\n" % (kw, ssig, " -> %s" % rtype if rtype else "")
    if fform == 4:
      exp["f.inner.a"] = None
      exp["f.inner.return"] = None
    return py, pyi, exp, existing
  cform, ct, pt, rt, dstub, _, hdr = d
  ptype, rtype = PARAM_TYPES[pt], RET_TYPES[rt]
  ctype = [None, "int", "list[int]", "Any"][ct]
  py = "class A:\n  c = g()\n"
  if cform == 4:
    py = "from typing import Any\nclass A:\n  c: Any = g()\n"
    existing["A.c"] = "Any"
  meth = "m"
  if cform == 0:
    py += "  def m(self, a):\n    return a\n"
  elif cform == 1:
    py += "  @staticmethod\n  def m(a):\n    return a\n"
  elif cform == 2:
    py += "  def m(self, a: str) -> str:\n    return a\n"
    existing["A.m.a"], existing["A.m.return"] = "str", "str"
  elif cform == 3:
    py += "  @classmethod\n  def m(cls, a):\n    return a\n"
  else:
    py += "  def m(self, a) -> Any:\n    return a\n"
    existing["A.m.return"] = "Any"
  pyi = _stub_header([ptype, rtype, ctype], "typing_extensions" if hdr else "typing") + "class A:\n"
  if ctype:
    pyi += "  c: %s\n" % ctype
  first = {0: "self, ", 1: "", 2: "self, ", 3: "cls, ", 4: "self, "}[cform]
  sdeco = {0: "", 1: "  @staticmethod\n", 2: "", 3: "  @classmethod\n", 4: ""}[cform] if dstub else ""
  pyi += "%s  def %s(%sa: %s)%s: ...\n" % (sdeco, meth, first, ptype, " -> %s" % rtype if rtype else "")
  exp["A.c"] = None if ctype in (None, "Any") or ctype in TRIVIAL else ctype
  exp["A.m.a"] = existing.get("A.m.a", ptype)
  exp["A.m.return"] = existing.get(
      "A.m.return", None if rtype in ("Any", "Never", None) else rtype)
  if cform in (0, 2, 4):
    exp["A.m.self"] = None
  if cform == 3:
    exp["A.m.cls"] = None
  return py, pyi, exp, existing


HIST_PY = "def price(q):\n  return q\n"
HIST_PYI = "from fractions import Fraction\ndef price(q: Fraction) -> Fraction: ...\n"

# ---------------------------------------------------------------------------
# Oracle on the output (CPython ast; concrete data, outside the tracer).
class _Strip(ast.NodeTransformer):
  """Removes annotations; AnnAssign -> Assign (or nothing when it has no value)."""

  def visit_arg(self, node):
    node.annotation = None
    return node

  def _fn(self, node):
    self.generic_visit(node)
    node.returns = None
    return node

  visit_FunctionDef = _fn
  visit_AsyncFunctionDef = _fn

  def visit_AnnAssign(self, node):
    if node.value is None:
      return None
    return ast.copy_location(ast.Assign(targets=[node.target], value=node.value), node)


def _stripped_dump(src, original_src=None, stub_src=None):
  tree = ast.parse(src)
  if original_src is not None:
    orig_top = {ast.dump(n) for n in ast.parse(original_src).body}
    orig_typing = {(n.module, a.name, a.asname) for n in ast.parse(original_src).body
                   if isinstance(n, ast.ImportFrom) for a in n.names}
    body = []
    for n in tree.body:
      added = ast.dump(n) not in orig_top
      if added and isinstance(n, ast.ImportFrom) and n.module in ("typing", "typing_extensions"):
        # names the merge added to (or as) a typing import are dropped; names
        # the program imported itself must still be there
        n.names = [a for a in n.names if (n.module, a.name, a.asname) in orig_typing]
        if n.names:
          body.append(n)
        continue
      if added and isinstance(n, ast.Import) and all(
          a.name in ("typing", "typing_extensions") for a in n.names):
        continue   # `import typing_extensions`: libcst's qualified spelling of clashing names
      if added and isinstance(n, (ast.ImportFrom, ast.Import)) and all(
          (a.asname or a.name).split(".")[0] in (_annotation_names(src) | _annotation_names(stub_src or ""))
          for a in n.names):
        continue   # an import for the annotations of THIS stub (the merge's typing imports)
      if (added and isinstance(n, ast.Assign) and isinstance(n.value, ast.Call) and
          isinstance(n.value.func, ast.Name) and n.value.func.id == "TypeVar"):
        continue
      body.append(n)
    tree.body = body
  tree = _Strip().visit(tree)
  return ast.dump(tree)


def _annotation_names(src):
  """Names occurring inside annotations of src."""
  names = set()
  for n in ast.walk(ast.parse(src)):
    anns = []
    if isinstance(n, ast.arg) and n.annotation is not None:
      anns.append(n.annotation)
    elif isinstance(n, (ast.FunctionDef, ast.AsyncFunctionDef)) and n.returns is not None:
      anns.append(n.returns)
    elif isinstance(n, ast.AnnAssign):
      anns.append(n.annotation)
    for a in anns:
      names.update(x.id for x in ast.walk(a) if isinstance(x, ast.Name))
  return names


def _annotations(src):
  """{target: annotation text or None} for every definition in src."""
  out = {}

  def ann(a):
    # libcst spells a stub name that clashes with a program import in qualified
    # form (typing_extensions.Any); same annotation
    return None if a is None else ast.unparse(a).replace("typing_extensions.", "").replace("typing.", "")

  def walk(body, prefix):
    for n in body:
      if isinstance(n, (ast.FunctionDef, ast.AsyncFunctionDef)):
        p = prefix + n.name
        a = n.args
        for x in a.posonlyargs + a.args + a.kwonlyargs:
          out["%s.%s" % (p, x.arg)] = ann(x.annotation)
        if a.vararg:
          out["%s.%s" % (p, a.vararg.arg)] = ann(a.vararg.annotation)
        if a.kwarg:
          out["%s.%s" % (p, a.kwarg.arg)] = ann(a.kwarg.annotation)
        out[p + ".return"] = ann(n.returns)
        walk(n.body, p + ".")
      elif isinstance(n, ast.ClassDef):
        walk(n.body, prefix + n.name + ".")
      elif isinstance(n, ast.AnnAssign) and isinstance(n.target, ast.Name):
        out[prefix + n.target.id] = ann(n.annotation)
      elif isinstance(n, ast.Assign) and isinstance(n.targets[0], ast.Name):
        out.setdefault(prefix + n.targets[0].id, None)
  walk(ast.parse(src).body, "")
  return out


@untraced
def judge(py, pyi, merged, exp, existing):
  """List of violated clauses (empty = property holds for this pair)."""
  bad = []
  try:
    compile(merged, "<merged>", "exec")
  except SyntaxError as e:
    return ["1: merged source does not compile: %s" % e]
  if _stripped_dump(merged, py, pyi) != _stripped_dump(py):
    bad.append("2: syntax tree changed beyond annotations / typing imports / TypeVar definitions")
  got = _annotations(merged)
  stub = _annotations(pyi)
  before = _annotations(py)
  for k, v in before.items():
    if k not in got:
      bad.append("2: definition %s disappeared" % k)
    elif v is not None and got[k] != v:
      bad.append("3: existing annotation of %s (%s) became %r" % (k, v, got[k]))
  for k, v in got.items():
    if v is None or before.get(k) is not None:
      continue
    # an annotation was inserted
    is_ret_or_var = k.endswith(".return") or k in ("z", "A.c")
    if v in ("Any", "Never") and is_ret_or_var:
      bad.append("5: bare %s inserted as annotation of %s" % (v, k))
    elif v != stub.get(k):
      bad.append("4: annotation of %s is %r, the stub gives %r" % (k, v, stub.get(k)))
  return bad


@untraced
def inserted(py, merged):
  """Did the merge insert at least one annotation? (evidence only)"""
  return _annotations(py) != _annotations(merged)


def kf_class(d):
  return None


def decode(s):
  return tuple(conc(x, r) for x, r in zip(s, RANGES))


def h_merge(s: SEL) -> bool:
  """
  pre: sel_ok(s)
  pre: shard_ok(shard_key(s))
  post: check_post(_)
  """
  d = decode(s)
  py, pyi, exp, existing = build(d)
  if kf_skip(kf_class(d)):
    return True
  if FAMILY == 1 and d[5] == 1:
    merge_pyi.merge_sources(py=HIST_PY, pyi=HIST_PYI)
  merged = merge_pyi.merge_sources(py=py, pyi=pyi)
  bad = judge(py, pyi, merged, exp, existing)
  record("M %d %r %s" % (FAMILY, d, "N" if inserted(py, merged) else "T"))
  return not bad


def explain(fn, s):
  d = tuple(int(x) for x in s)
  py, pyi, exp, existing = build(d)
  try:
    if FAMILY == 1 and d[5] == 1:
      merge_pyi.merge_sources(py=HIST_PY, pyi=HIST_PYI)
    merged = merge_pyi.merge_sources(py=py, pyi=pyi)
    bad = judge(py, pyi, merged, exp, existing)
  except Exception as e:  # pylint: disable=broad-except
    merged, bad = None, ["merge_sources raised %r" % e]
  return {"program": py, "stub": pyi, "merged": merged, "violated": bad}
