"""Shared decoder: selector vector -> pytd type tree (used by C11 and C12).

A type is a complete ternary tree of nodes (kind, a).  Leaf kinds index into
LEAVES; composite kinds are list[T], tuple[T, ...], tuple[T1..Tn] (n = a in
0..2), Callable[[A1..An], R] (n = a in 0..2) and Union of a+2 members.
Only bounds and pinning terms are built in the validity predicate (no forks);
decoding forks once per selector actually used.
"""

from vlib.prelude import conc, inrange

from pytype.pytd import pytd

K_UNION, K_LIST, K_TUPLE, K_CALLABLE, K_HTUPLE = range(5)  # comp_kinds=n keeps the first n
NCOMP = 5


def nodes(depth):
  return sum(3**d for d in range(depth))


def first_leaf(depth):
  return sum(3**d for d in range(depth - 1))


def tree_ok(t, off, depth, nleaves, comp_kinds=NCOMP, pin=True,
            root_union=0, mid_no_union=False):
  """Bounds of one tree stored at t[off : off + 2*nodes(depth)].

  With pin=True the selectors the decoder will not read are forced to 0, so
  every satisfying vector denotes a distinct type (needed for disjoint shards).
  """
  n = nodes(depth)
  fl = first_leaf(depth)
  conds = []
  used = {0: True}
  for i in range(n):
    k, a = t[off + 2 * i], t[off + 2 * i + 1]
    nk = nleaves if i >= fl else nleaves + comp_kinds
    u = used.get(i, False)
    if u is True:
      conds.append(inrange(k, 0, nk))
      in_range_a = inrange(a, 0, 3)
    else:
      conds.append(any([all([u, inrange(k, 0, nk)]), all([u ^ True, k == 0])]))
      in_range_a = any([all([u, inrange(a, 0, 3)]), all([u ^ True, a == 0])])
    conds.append(in_range_a)
    if i == 0 and root_union:
      # the root is a union of exactly `root_union` members (2 or 3)
      conds.append(k == nleaves + K_UNION)
      conds.append(a == root_union - 2)
    if i > 0 and mid_no_union:
      conds.append(k != nleaves + K_UNION)
    if i < fl:
      comp = k - nleaves  # composite kind if >= 0
      uses_a = any([comp == K_TUPLE, comp == K_CALLABLE, comp == K_UNION])
      if pin:
        conds.append(any([all([u, uses_a]) if u is not True else uses_a, a == 0]))
        conds.append(any([comp != K_UNION, a <= 1]))
      # number of children read by the decoder
      c0 = any([comp == K_LIST, comp == K_HTUPLE,
                all([comp == K_TUPLE, a >= 1]), comp == K_CALLABLE,
                comp == K_UNION])
      c1 = any([all([comp == K_TUPLE, a >= 2]), all([comp == K_CALLABLE, a >= 1]),
                comp == K_UNION])
      c2 = any([all([comp == K_CALLABLE, a >= 2]), all([comp == K_UNION, a >= 1])])
      for j, cj in enumerate((c0, c1, c2)):
        used[3 * i + 1 + j] = cj if u is True else all([u, cj])
    elif pin:
      conds.append(a == 0)
  return all(conds)


def decode(t, off, depth, nleaves, comp_kinds=NCOMP, i=0):
  """-> nested tuple ('leaf', idx) | (kind, children)."""
  fl = first_leaf(depth)
  nk = nleaves if i >= fl else nleaves + comp_kinds
  k = conc(t[off + 2 * i], nk)
  if k < nleaves:
    return ("leaf", k)
  comp = k - nleaves
  kid = lambda j: decode(t, off, depth, nleaves, comp_kinds, 3 * i + 1 + j)
  if comp in (K_LIST, K_HTUPLE):
    return (comp, (kid(0),))
  a = conc(t[off + 2 * i + 1], 3)
  if comp == K_TUPLE:
    return (comp, tuple(kid(j) for j in range(a)))
  if comp == K_CALLABLE:
    return (comp, tuple(kid(j) for j in range(a + 1)))  # args..., ret
  a = min(a, 1)
  return (comp, tuple(kid(j) for j in range(a + 2)))


def build(d, leaves, mk_class):
  """Decoded tree -> pytd type. `leaves[idx]` is a pytd type; mk_class(name)
  gives the type node for a container class name."""
  kind, x = d
  if kind == "leaf":
    return leaves[x]
  sub = tuple(build(c, leaves, mk_class) for c in x)
  if kind == K_LIST:
    return pytd.GenericType(mk_class("builtins.list"), sub)
  if kind == K_HTUPLE:
    return pytd.GenericType(mk_class("builtins.tuple"), sub)
  if kind == K_TUPLE:
    return pytd.TupleType(mk_class("builtins.tuple"), sub)
  if kind == K_CALLABLE:
    return pytd.CallableType(mk_class("typing.Callable"), sub)
  return pytd.UnionType(sub)


def show(d, names):
  kind, x = d
  if kind == "leaf":
    return names[x]
  sub = [show(c, names) for c in x]
  if kind == K_LIST:
    return "list[%s]" % sub[0]
  if kind == K_HTUPLE:
    return "tuple[%s, ...]" % sub[0]
  if kind == K_TUPLE:
    return "tuple[%s]" % (", ".join(sub) or "()")
  if kind == K_CALLABLE:
    return "Callable[[%s], %s]" % (", ".join(sub[:-1]), sub[-1])
  return "Union[%s]" % ", ".join(sub)


def has_kind(d, kind):
  if d[0] == kind:
    return True
  if d[0] == "leaf":
    return False
  return any(has_kind(c, kind) for c in d[1])
