"""C13 — argument binding vs CPython (inspect.Signature.bind), under CrossHair.

The real SignedFunction._map_args (interpreter functions) and
PyTDSignature._map_args + _fill_in_missing_parameters (stub functions) are
executed on a symbolic signature shape and call shape.  A real pytype Context
(loader + builtins + typegraph Program) is created ONCE at import time,
outside the tracer; the functions under test then run traced against it, so
nothing of pytype is stubbed.

Signature: #positional-only, #positional-or-keyword, #keyword-only in [0, MAXP];
number of trailing positional defaults; default mask of keyword-only; *args?;
**kwargs?.  Call: #positional in [0, MAXPOS]; a subset of at most MAXKW keyword
names drawn from the parameter names plus one foreign name.  No `*`/`**` at
the call site.

Oracle: CPython itself -- a real function with the signature is defined and called.
"""

import inspect
from typing import Tuple

from vlib.prelude import (  # noqa
    record, shard_ok, check_post, TIER, param, conc, inrange, all_inrange,
    untraced, kf_skip)

from pytype import config
from pytype import context
from pytype import load_pytd
from pytype.abstract import abstract
from pytype.abstract import function
from pytype.errors import error_types
from pytype.pytd import pytd

MAXP = param("C13_MAXP", quick=2, thorough=3)      # params of each kind
MAXPOS = param("C13_MAXPOS", quick=3, thorough=5)  # positional args at the call
MAXKW = param("C13_MAXKW", quick=2, thorough=3)    # keyword args at the call
MAXKO = param("C13_MAXKO", quick=MAXP, thorough=MAXP)  # keyword-only params
# 1: the call is made in the f(*args, **kwargs) form the compiler emits for calls with
# star-arguments: all positionals in one concrete tuple, all keywords in one concrete dict;
# Args.simplify (traced) must turn it back into the flat call before binding
EX = param("C13_EX", quick=0, thorough=0)

_options = config.Options.create()
_loader = load_pytd.create_loader(_options)
CTX = context.Context(_options, _loader, src="")
NODE = CTX.root_node

_B = _loader.builtins


def _cls(name):
  return pytd.ClassType(name, _B.Lookup(name))


# the types a stub gives to *args / **kwargs
TUPLE_T = pytd.GenericType(_cls("builtins.tuple"), (pytd.AnythingType(),))
DICT_T = pytd.GenericType(_cls("builtins.dict"),
                          (_cls("builtins.str"), pytd.AnythingType()))

POS_NAMES = ["p0", "p1", "p2"]
PK_NAMES = ["a0", "a1", "a2"]
KO_NAMES = ["k0", "k1", "k2"]
FOREIGN = "zz"

# sig selectors: npo, npk, nko, ndef (trailing positional defaults), komask,
#                varargs, kwargs
# call selectors: npos, kwmask over candidate names
NCAND = 3 * MAXP + 1
# selectors: npo, npk, nko, ndef, varargs, kwargs, npos,
#            MAXP default bits of the keyword-only params, NCAND keyword bits
SEL = Tuple[(int,) * (7 + MAXP + NCAND)]

# distinct abstract values used as argument tags
TAGS = [abstract.ConcreteValue(100 + i, CTX.convert.int_type, CTX)
        for i in range(MAXPOS + NCAND)]
DEFAULT_TAG = abstract.ConcreteValue(-1, CTX.convert.int_type, CTX)


from pytype.abstract import _function_base  # pylint: disable=g-import-not-at-top
from pytype.abstract import _instances  # pylint: disable=g-import-not-at-top


class UntracedDict:
  """The REAL abstract Dict, constructed and updated outside the tracer.

  `_instances.Dict(ctx)` resolves dict's slots through attribute.py (8 ms
  natively, ~0.5 s traced); it is conversion machinery, not binding logic.
  """

  def __init__(self, ctx):
    self.real = untraced(_instances.Dict)(ctx)

  def update(self, node, other, omit=()):
    return untraced(self.real.update)(node, other, omit=omit)

  def to_variable(self, node):
    return untraced(self.real.to_variable)(node)


class _InstancesShim:
  """_function_base's view of the _instances module (only Dict is used there)."""
  Dict = UntracedDict

  def __getattr__(self, name):
    return getattr(_instances, name)


_function_base._instances = _InstancesShim()  # pylint: disable=protected-access
# Same for the tuple built for *args: real code, outside the tracer.
CTX.convert.build_tuple = untraced(CTX.convert.build_tuple)
CTX.new_unsolvable = untraced(CTX.new_unsolvable)


# Error objects format their arguments when constructed (sig.iter_args,
# merge_values, ...): real code, but run outside the tracer.
for _cls_ in (error_types.InvalidParameters,):
  _cls_.__init__ = untraced(_cls_.__init__)


def sel_ok(s):
  """Exact bounds; every encoding denotes a distinct input (no forks):
  default bits only for existing keyword-only params, keyword bits only for
  names of existing params (or the foreign name), at most MAXKW keywords."""
  npo, npk, nko, ndef, va, kw, npos = s[:7]
  kobits = s[7:7 + MAXP]
  kwbits = s[7 + MAXP:]
  conds = [
      inrange(npo, 0, MAXP + 1), inrange(npk, 0, MAXP + 1),
      inrange(nko, 0, MAXKO + 1), 0 <= ndef, ndef <= npo + npk,
      inrange(va, 0, 2), inrange(kw, 0, 2), inrange(npos, 0, MAXPOS + 1),
      all_inrange(kobits, 0, 2), all_inrange(kwbits, 0, 2),
      sum(kwbits) <= MAXKW,
  ]
  for i in range(MAXP):
    conds.append(any([i < nko, kobits[i] == 0]))
    conds.append(any([i < npo, kwbits[i] == 0]))
    conds.append(any([i < npk, kwbits[MAXP + i] == 0]))
    conds.append(any([i < nko, kwbits[2 * MAXP + i] == 0]))
  return all(conds)


def shard_key(s):
  return s[0] + 4 * (s[1] + 4 * (s[2] + 4 * (s[4] + 2 * (s[5] + 2 * s[6]))))


def decode(s):
  npo = conc(s[0], MAXP + 1)
  npk = conc(s[1], MAXP + 1)
  nko = conc(s[2], MAXKO + 1)
  ndef = conc(s[3], npo + npk + 1)
  va = conc(s[4], 2)
  kw = conc(s[5], 2)
  npos = conc(s[6], MAXPOS + 1)
  komask = 0
  for i in range(nko):
    komask |= conc(s[7 + i], 2) << i
  kwmask = 0
  present = ([i for i in range(npo)] + [MAXP + i for i in range(npk)] +
             [2 * MAXP + i for i in range(nko)] + [3 * MAXP])
  for i in present:
    kwmask |= conc(s[7 + MAXP + i], 2) << i
  return npo, npk, nko, ndef, komask, va, kw, npos, kwmask


def canonical(d):
  """True for the (unique) canonical encodings; used by the native pre-validation."""
  npo, npk, nko, ndef, komask, va, kw, npos, kwmask = d
  names = candidates()
  present = set(POS_NAMES[:npo] + PK_NAMES[:npk] + KO_NAMES[:nko] + [FOREIGN])
  for i, n in enumerate(names):
    if kwmask >> i & 1 and n not in present:
      return False
  return popcount(kwmask) <= MAXKW and komask < 2 ** nko


def popcount(x):
  return bin(x).count("1")


def candidates():
  return POS_NAMES[:MAXP] + PK_NAMES[:MAXP] + KO_NAMES[:MAXP] + [FOREIGN]


def py_signature(d):
  npo, npk, nko, ndef, komask, va, kw, _, _ = d
  P = inspect.Parameter
  params = []
  positional = POS_NAMES[:npo] + PK_NAMES[:npk]
  for i, n in enumerate(positional):
    kind = P.POSITIONAL_ONLY if i < npo else P.POSITIONAL_OR_KEYWORD
    default = "default" if i >= len(positional) - ndef else P.empty
    params.append(P(n, kind, default=default))
  if va:
    params.append(P("args", P.VAR_POSITIONAL))
  for i, n in enumerate(KO_NAMES[:nko]):
    default = "default" if komask >> i & 1 else P.empty
    params.append(P(n, P.KEYWORD_ONLY, default=default))
  if kw:
    params.append(P("kwargs", P.VAR_KEYWORD))
  return inspect.Signature(params)


def call_shape(d):
  npos, kwmask = d[7], d[8]
  kws = [n for i, n in enumerate(candidates()) if kwmask >> i & 1]
  return npos, kws


_FN_CACHE = {}


@untraced
def expected(d):
  """CPython's own binding: a real function with this signature is defined and
  CALLED (the interpreter binds the arguments); None if it raises TypeError,
  else {param: tag index / tuple / dict}.  (inspect.Signature.bind is not used:
  in 3.12 it rejects f(0, p=1) for `def f(p=0, /, **kw)`, which CPython accepts.)
  """
  npos, kws = call_shape(d)
  key = d[:7]
  fn = _FN_CACHE.get(key)
  if fn is None:
    sig = py_signature(d)
    names = list(sig.parameters)
    src = "def f%s:\n  return {%s}\n" % (
        str(sig).replace("'default'", "DEFAULT"),
        ", ".join("%r: %s" % (n, n) for n in names))
    env = {"DEFAULT": "default"}
    exec(src, env)  # pylint: disable=exec-used
    fn = _FN_CACHE[key] = env["f"]
  try:
    return fn(*range(npos), **{n: npos + i for i, n in enumerate(kws)})
  except TypeError:
    return None


@untraced
def _make_args(d):
  npos, kws = call_shape(d)
  posargs = tuple(CTX.program.NewVariable([TAGS[i]], [], NODE) for i in range(npos))
  named = {n: CTX.program.NewVariable([TAGS[npos + i]], [], NODE)
           for i, n in enumerate(kws)}
  if not EX:
    return function.Args(posargs=posargs, namedargs=named)
  star = CTX.convert.build_tuple(NODE, list(posargs))
  dd = _instances.Dict(CTX)
  for n, v in named.items():
    dd.set_str_item(NODE, n, v)
  return function.Args(posargs=(), namedargs={}, starargs=star,
                       starstarargs=dd.to_variable(NODE))


def make_args(d):
  args = _make_args(d)
  if EX:
    args = args.simplify(NODE, CTX)   # the real flattening of *args / **kwargs
  return args


def tag_of(var):
  """Tag index carried by a variable (or 'default'/'unsolvable')."""
  data = var.data
  if len(data) != 1:
    return "ambiguous"
  v = data[0]
  if v is DEFAULT_TAG:
    return "default"
  if v in TAGS:
    return TAGS.index(v)
  return type(v).__name__


_INTERP_CACHE = {}
_PYTD_CACHE = {}


@untraced
def interp_function(d):
  """Set-up (untraced, cached per signature): a real SimpleFunction."""
  key = d[:7]
  if key in _INTERP_CACHE:
    return _INTERP_CACHE[key]
  npo, npk, nko, ndef, komask, va, kw, _, _ = d
  positional = POS_NAMES[:npo] + PK_NAMES[:npk]
  defaults = {n: CTX.program.NewVariable([DEFAULT_TAG], [], NODE)
              for n in positional[len(positional) - ndef:]} if ndef else {}
  for i, n in enumerate(KO_NAMES[:nko]):
    if komask >> i & 1:
      defaults[n] = CTX.program.NewVariable([DEFAULT_TAG], [], NODE)
  sig = function.Signature(
      name="f", param_names=tuple(positional), posonly_count=npo,
      varargs_name="args" if va else None,
      kwonly_params=tuple(KO_NAMES[:nko]),
      kwargs_name="kwargs" if kw else None, defaults=defaults, annotations={})
  f = _INTERP_CACHE[key] = abstract.SimpleFunction(sig, CTX)
  return f


@untraced
def read_callargs(callargs, d):
  npo, npk, nko = d[0], d[1], d[2]
  out = {}
  formal = set(POS_NAMES[:npo] + PK_NAMES[:npk] + KO_NAMES[:nko]) | {"args", "kwargs"}
  for name, var in callargs.items():
    if name not in formal:
      # extra keywords also stay in callargs under their own name next to the
      # **kwargs dict; they are not parameters and are not compared
      continue
    if name == "args":
      out[name] = tuple(tag_of(v) for v in var.data[0].pyval)
    elif name == "kwargs":
      out[name] = {k: tag_of(v) for k, v in var.data[0].pyval.items()}
    else:
      out[name] = tag_of(var)
  return out


def interp_binding(d):
  """SignedFunction._map_args on a SimpleFunction; None on FailedFunctionCall."""
  f = interp_function(d)
  args = make_args(d)
  try:
    callargs = f._map_args(NODE, args)  # pylint: disable=protected-access
  except error_types.FailedFunctionCall:
    return None
  return read_callargs(callargs, d)


def normalise_expected(exp, d):
  """CPython's BoundArguments -> comparable dict (defaults made explicit)."""
  npo, npk, nko, ndef, komask, va, kw, _, _ = d
  return dict(exp)  # a real call already yields every parameter


@untraced
def pytd_signature(d):
  """Set-up (untraced, cached per signature): a real PyTDSignature."""
  key = d[:7]
  if key in _PYTD_CACHE:
    return _PYTD_CACHE[key]
  npo, npk, nko, ndef, komask, va, kw, _, _ = d
  any_t = pytd.AnythingType()
  K = pytd.ParameterKind
  positional = POS_NAMES[:npo] + PK_NAMES[:npk]
  params = []
  for i, n in enumerate(positional):
    params.append(pytd.Parameter(
        n, any_t, K.POSONLY if i < npo else K.REGULAR,
        i >= len(positional) - ndef, None))
  for i, n in enumerate(KO_NAMES[:nko]):
    params.append(pytd.Parameter(n, any_t, K.KWONLY, bool(komask >> i & 1), None))
  star = pytd.Parameter("args", TUPLE_T, K.REGULAR, True, None) if va else None
  starstar = pytd.Parameter("kwargs", DICT_T, K.REGULAR, True, None) if kw else None
  psig = pytd.Signature(tuple(params), star, starstar, any_t, (), ())
  s = _PYTD_CACHE[key] = abstract.PyTDSignature("f", psig, CTX)
  return s


def pytd_binding(d):
  """PyTDSignature._map_args + _fill_in_missing_parameters; None on failure.

  Returns {name: tag} for everything recorded in the argument dictionary.
  """
  s = pytd_signature(d)
  args = make_args(d)
  try:
    _, arg_dict = s._map_args(NODE, args)  # pylint: disable=protected-access
    s._fill_in_missing_parameters(NODE, args, arg_dict)  # pylint: disable=protected-access
  except error_types.FailedFunctionCall:
    return None
  return untraced(lambda: {k: tag_of(v) for k, v in arg_dict.items()})()


def pytd_agrees(got, exp, d):
  """Named parameters bound to CPython's argument; defaults left unbound/unsolvable;
  keywords that CPython puts into **kwargs are either recorded under their own
  name or (positional-only names) left out."""
  sig = py_signature(d)
  for name, p in sig.parameters.items():
    if p.kind in (p.VAR_POSITIONAL, p.VAR_KEYWORD):
      continue
    if exp[name] != "default":
      if got.get(name) != exp[name]:
        return False
    else:
      # default: either absent or filled with an unsolvable placeholder
      if name in got and isinstance(got[name], int):
        return False
  posonly = set(POS_NAMES[:d[0]])
  for k, v in exp.get("kwargs", {}).items():
    if k in posonly:
      continue  # names a positional-only parameter: belongs to **kwargs only
    if k in got and got[k] != v:
      return False
  return True


def h_bind(s: SEL) -> bool:
  """
  pre: sel_ok(s)
  pre: shard_ok(shard_key(s))
  post: check_post(_)
  """
  d = decode(s)
  exp = expected(d)
  got = interp_binding(d)
  ok = (got is None) == (exp is None)
  if ok and exp is not None:
    ok = got == normalise_expected(exp, d)
  got2 = pytd_binding(d)
  ok2 = (got2 is None) == (exp is None)
  if ok2 and exp is not None:
    ok2 = pytd_agrees(got2, exp, d)
  npos, kws = call_shape(d)
  record("S %s call(%d pos, kw=%s) %s" % (
      py_signature(d), npos, ",".join(kws), "N" if (npos or kws) else "T"))
  return ok and ok2


def explain(fn, s):
  d = decode(s)
  npos, kws = call_shape(d)
  exp = expected(d)
  return {
      "signature": "def f%s" % (py_signature(d),),
      "call": "f(%s)" % ", ".join(
          ["t%d" % i for i in range(npos)] +
          ["%s=t%d" % (n, npos + i) for i, n in enumerate(kws)]),
      "cpython": "TypeError" if exp is None else repr(normalise_expected(exp, d)),
      "pytype SignedFunction._map_args": repr(interp_binding(d)),
      "pytype PyTDSignature._map_args": repr(pytd_binding(d)),
  }
