"""C10 — class linearisation vs CPython's C3, under CrossHair.

Input: a hierarchy of N classes C0..C(N-1); class i has k_i in [0, MAXB]
bases, each chosen among C0..C(i-1) (repeats allowed), `object` implicit.
Oracle: CPython itself (type(name, bases, {})).

Two real code paths are exercised on every path of the exploration:
  stub path:        pytd.mro.GetBasesInMRO on real pytd.Class / ClassType nodes
                    (MergeSequences, Dedup, MROMerge, _ComputeMRO)
  interpreter path: class_mixin.Class.compute_mro + abstract_utils.get_mro_bases,
                    called unbound on stand-in class objects that provide
                    bases()/mro/full_name (no VM needed), i.e. the real merge
                    of real MRO rows that vm_utils.make_class relies on to
                    raise MROError -> [mro-error].

Structural inputs only: nothing stays symbolic after decoding, so this is a
solver-certified exhaustive walk of the bounded hierarchy space.
"""

from typing import Tuple

from vlib.prelude import (  # noqa
    record, shard_ok, check_post, TIER, param, conc, inrange, all_inrange,
    untraced, kf_skip)

from pytype.abstract import abstract_utils
from pytype.abstract import class_mixin
from pytype.pytd import mro
from pytype.pytd import pytd

N = param("C10_N", quick=4, thorough=5)
MAXB = param("C10_MAXB", quick=3, thorough=3)
REPEATS = param("C10_REPEATS", quick=1, thorough=1)
ROOTS = param("C10_ROOTS", quick=1, thorough=1)   # the first ROOTS classes have no explicit bases

SEL = Tuple[(int,) * (N * (MAXB + 1))]


def sel_ok(s):
  """Exact bounds, unused base slots pinned to 0 (no forks)."""
  conds = []
  for i in range(N):
    k = s[i * (MAXB + 1)]
    conds.append(inrange(k, 0, (MAXB if i >= ROOTS else 0) + 1))
    for j in range(MAXB):
      b = s[i * (MAXB + 1) + 1 + j]
      conds.append(any([all([j < k, inrange(b, 0, max(i, 1))]),
                        all([j >= k, b == 0])]))
      if not REPEATS:
        for j2 in range(j):
          conds.append(any([j >= k, b != s[i * (MAXB + 1) + 1 + j2]]))
  return all(conds)


def shard_key(s):
  key = 0
  for x in s[(N - 2) * (MAXB + 1):]:
    key = key * 5 + x
  return key


def decode(s):
  h = []
  for i in range(N):
    k = conc(s[i * (MAXB + 1)], (MAXB if i >= ROOTS else 0) + 1)
    h.append(tuple(conc(s[i * (MAXB + 1) + 1 + j], max(i, 1))
                   for j in range(k)))
  return tuple(h)


class _Var:
  """Stand-in for a cfg.Variable holding one base class."""

  def __init__(self, data):
    self.data = [data]


class FakeClass:
  """Stand-in for an InterpreterClass: what compute_mro reads from `self`."""

  def __init__(self, name, bases):
    self.name = name
    self.full_name = name
    self._bases = bases
    self.mro = None

  def bases(self):
    return [_Var(b) for b in self._bases]

  def __repr__(self):
    return self.name


def cpython_mro(h):
  """Per class: list of names (its __mro__ without object) or None (TypeError)."""
  classes = []
  out = []
  for i, bases in enumerate(h):
    try:
      c = type("C%d" % i, tuple(classes[b] for b in bases), {})
    except TypeError:
      out.append(None)
      return out  # later classes may depend on this one: stop here
    classes.append(c)
    out.append([k.__name__ for k in c.__mro__ if k is not object])
  return out


def stub_mro(h, upto):
  """GetBasesInMRO for classes 0..upto on real pytd nodes; None on MROError."""
  obj = pytd.Class("object", (), (), (), (), (), (), None, ())
  obj_t = pytd.ClassType("object", obj)
  types = []
  out = []
  for i in range(upto + 1):
    bases = tuple(types[b] for b in h[i]) or (obj_t,)
    cls = pytd.Class("C%d" % i, (), bases, (), (), (), (), None, ())
    types.append(pytd.ClassType("C%d" % i, cls))
    try:
      m = mro.GetBasesInMRO(cls)
    except mro.MROError:
      out.append(None)
      return out
    out.append(["C%d" % i] + [t.name for t in m if t.name != "object"])
  return out


def interp_mro(h, upto):
  """Class.compute_mro for classes 0..upto on stand-ins; None on MROError."""
  obj = FakeClass("object", [])
  obj.mro = (obj,)
  classes = []
  out = []
  for i in range(upto + 1):
    c = FakeClass("C%d" % i, [classes[b] for b in h[i]] or [obj])
    try:
      c.mro = class_mixin.Class.compute_mro(c)
    except mro.MROError:
      out.append(None)
      return out
    classes.append(c)
    out.append([k.name for k in c.mro if k is not obj])
  return out


def has_repeat(h, upto):
  return any(len(set(b)) != len(b) for b in h[:upto + 1])


def kf_class(h, expected):
  """Classifies an input into a recorded-finding class (or None)."""
  upto = len(expected) - 1
  if expected[upto] is None and len(set(h[upto])) != len(h[upto]):
    return "dup-bases"
  return None


def h_mro(s: SEL) -> bool:
  """
  pre: sel_ok(s)
  pre: shard_ok(shard_key(s))
  post: check_post(_)
  """
  h = decode(s)
  expected = cpython_mro(h)
  upto = len(expected) - 1   # first class CPython refuses, or the last class
  if kf_skip(kf_class(h, expected)):
    return True
  got_interp = interp_mro(h, upto)
  ok = got_interp == expected
  # Stub classes: a stub with a repeated direct base has no CPython counterpart
  # (the class cannot exist), so the stub path is compared on the others only.
  if not has_repeat(h, upto):
    ok = ok and stub_mro(h, upto) == expected
  nt = any(len(b) >= 2 for b in h)
  record("M %r %s" % (h, "N" if nt else "T"))
  return ok


def explain(fn, s):
  h = decode(s)
  expected = cpython_mro(h)
  upto = len(expected) - 1
  return {"hierarchy": ["class C%d(%s)" % (i, ", ".join("C%d" % b for b in bs))
                        for i, bs in enumerate(h)],
          "cpython": expected, "pytype_interpreter_path": interp_mro(h, upto),
          "pytype_stub_path": stub_mro(h, upto)}
