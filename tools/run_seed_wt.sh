#!/bin/bash
# tools/run_seed_wt.sh <seeded/ID dir> [tier]  — like run_seed.sh, but applies the change to a
# scratch worktree (VERIF_REPO) instead of /repo, so it can run while other checks use /repo.
set -u
D=$(realpath "$1"); TIER=${2:-quick}
PID=$(/venv/bin/python -c "import json;print(json.load(open('$D/meta.json'))['property'])")
WT=$(mktemp -d /tmp/seedwt.XXXXXX); rmdir "$WT"
git -C /repo worktree add -q --detach "$WT" HEAD || exit 2
EV=$(mktemp -d /tmp/seedev.XXXXXX)
trap 'git -C /repo worktree remove --force "$WT" 2>/dev/null; rm -rf "$WT" "$EV" /tmp/run_seed.$$.log' EXIT
git -C "$WT" apply "$D/patch.diff" || exit 2
cd /verif && VERIF_REPO="$WT" VERIF_EVIDENCE_DIR="$EV" ./check "$PID" "$TIER" > /tmp/run_seed.$$.log 2>&1; RC=$?
grep -E "VIOLATION|HARNESS-ERROR|^== " /tmp/run_seed.$$.log | cut -c1-260 | head -6
if [ $RC -eq 1 ] && grep -q "^VIOLATION property=$PID" /tmp/run_seed.$$.log; then echo "RESULT $(basename $D) $PID $TIER DETECTED"; else echo "RESULT $(basename $D) $PID $TIER MISSED rc=$RC"; fi
