#!/bin/bash
# tools/verify_seed.sh <patch.diff> <demo.py>  — confirm a seeded change in a scratch worktree:
# applies cleanly, pinned suite still has its 171 passes, demo passes without / fails with the patch.
set -u
PATCH=$(realpath "$1"); DEMO=$(realpath "$2")
WT=$(mktemp -d /tmp/seedverify.XXXXXX); rmdir "$WT"
git -C /repo worktree add -q --detach "$WT" HEAD || exit 2
cleanup() { git -C /repo worktree remove --force "$WT" 2>/dev/null; rm -rf "$WT" "$B0" "$B1" 2>/dev/null; }
trap cleanup EXIT
build() { # $1 = out dir
  local INC PYB SUF
  INC=$(/venv/bin/python -c "import sysconfig;print(sysconfig.get_paths()['include'])")
  PYB=$(/venv/bin/python -c "import pybind11;print(pybind11.get_include())")
  SUF=$(/venv/bin/python -c "import sysconfig;print(sysconfig.get_config_var('EXT_SUFFIX'))")
  mkdir -p "$1"
  for f in cfg cfg_logging pylogging reachable solver typegraph; do
    g++ -O1 -std=c++20 -fPIC -fvisibility=hidden -w -I$INC -I$PYB -I"$WT" -c "$WT/pytype/typegraph/$f.cc" -o "$1/$f.o" &
  done; wait
  g++ -shared -o "$1/cfg$SUF" "$1"/*.o
}
B0=$(mktemp -d /tmp/seedcfg0.XXXXXX); B1=$(mktemp -d /tmp/seedcfg1.XXXXXX)
build "$B0"
cp "$DEMO" "$WT/_demo.py"
( cd "$WT" && timeout 900 /venv/bin/python _demo.py "$B0" >/tmp/seedverify.base.log 2>&1 ); RC0=$?
git -C "$WT" apply "$PATCH" || { echo "PATCH DOES NOT APPLY"; exit 2; }
build "$B1"
( cd "$WT" && timeout 900 /venv/bin/python _demo.py "$B1" >/tmp/seedverify.patched.log 2>&1 ); RC1=$?
rm -f "$WT/_demo.py"
SUITE=$(cd "$WT" && /venv/bin/python -m pytest -q -p no:cacheprovider --timeout=900 --continue-on-collection-errors 2>&1 | tail -1)
echo "demo_unpatched_rc=$RC0 demo_patched_rc=$RC1 suite_with_patch: $SUITE"
echo "--- patched demo output (tail):"; tail -5 /tmp/seedverify.patched.log
if [ $RC0 -eq 0 ] && [ $RC1 -ne 0 ] && echo "$SUITE" | grep -q "171 passed"; then echo "SEED-OK"; else echo "SEED-REJECTED"; exit 1; fi
