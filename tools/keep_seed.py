#!/usr/bin/env python3
"""tools/keep_seed.py <ID> <property> <patch> <demo> <notes.md> — store a confirmed seeded change."""
import json, os, shutil, sys
sid, prop, patch, demo, notes = sys.argv[1:6]
d = os.path.join("/verif/seeded", sid)
os.makedirs(d, exist_ok=True)
shutil.copy(patch, os.path.join(d, "patch.diff"))
shutil.copy(demo, os.path.join(d, "demo.py"))
txt = open(notes).read()
meta = {
    "id": sid, "property": prop,
    "origin": "written by an independent sub-agent that saw only the property text and a scratch worktree",
    "notes_from_author": txt,
    "confirmed_by": "tools/verify_seed.sh patch.diff demo.py -> SEED-OK (applies cleanly; demo exits 0 without / non-zero with the patch; pinned suite still 171 passed)",
    "how_to_run_checks_against_it": "tools/run_seed.sh seeded/%s [quick|thorough]" % sid,
    "detected_by": {},
}
json.dump(meta, open(os.path.join(d, "meta.json"), "w"), indent=1)
print("kept", d)
