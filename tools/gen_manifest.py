#!/usr/bin/env python3
"""Regenerates /verif/MANIFEST.json from tools/manifest_src.py (single source of truth)."""
import json, os, sys
sys.path.insert(0, "/verif")
from tools import manifest_src as M

checks = []
for c in sorted(M.CHECKS, key=lambda c: c["id"]):
  checks.append({
      "property_id": c["id"],
      "quick_cmd": "./check %s quick" % c["id"],
      "thorough_cmd": "./check %s thorough" % c["id"],
      "evidence_file": "evidence/%s.json" % c["id"],
      "replay_cmd_template": "./check replay {path}",
      "engine": c["engine"],
      "level_claimed": {"category": "other", "text": c["level_text"], "design_ref": c["design_ref"]},
      "level_note": c["level_note"],
      "technique": c["technique"],
  })
claimed = {c["id"] for c in M.CHECKS}
na = [{"property_id": k, "reason": v} for k, v in sorted(M.NOT_APPLICABLE.items()) if k not in claimed]
all_ids = {json.loads(l)["id"] for l in open("/verif/properties.jsonl")}
missing = all_ids - claimed - set(M.NOT_APPLICABLE)
assert not missing, missing
man = {
    "version": 1,
    "setup_cmd": "./setup.sh",
    "hooks": {
        "guard": "GOOGLE_PYTYPE_VERIF",
        "enable": "no hooks are needed: harnesses import private functions from /repo directly; the C++ extension is compiled from /repo/pytype/typegraph/*.cc into a scratch dir by every check",
        "baseline_off_cmd": "cd /repo && /venv/bin/python -m pytest -ra -q -p no:cacheprovider --timeout=900 --continue-on-collection-errors",
        "source_commits": [],
        "add_only": True,
    },
    "engines": M.ENGINES,
    "checks": checks,
    "notes": M.NOTES,
    "not_applicable": na,
}
json.dump(man, open("/verif/MANIFEST.json", "w"), indent=1)
import jsonschema
jsonschema.validate(man, json.load(open("/root/.vp/MANIFEST.schema.json")))
print("MANIFEST.json: %d checks, %d not applicable" % (len(checks), len(na)))
