#!/bin/bash
# tools/run_seed.sh <seeded/ID dir> [tier]  — apply a seeded change to /repo, run the check of the
# property it breaks, undo the change straight afterwards. Prints DETECTED / MISSED.
set -u
D=$(realpath "$1"); TIER=${2:-quick}
PID=$(/venv/bin/python -c "import json,sys;print(json.load(open('$D/meta.json'))['property'])")
cd /repo && git diff --quiet || { echo "/repo not clean"; exit 2; }
git -C /repo apply "$D/patch.diff" || exit 2
trap 'git -C /repo checkout -- . ' EXIT
cd /verif && ./check "$PID" "$TIER" > /tmp/run_seed.$$.log 2>&1; RC=$?
grep -E "VIOLATION|HARNESS-ERROR|INCONCLUSIVE|^== " /tmp/run_seed.$$.log | cut -c1-300 | head -12
if [ $RC -eq 1 ] && grep -q "^VIOLATION property=$PID" /tmp/run_seed.$$.log; then echo "RESULT $(basename $D) $PID $TIER DETECTED"; else echo "RESULT $(basename $D) $PID $TIER MISSED rc=$RC"; fi
rm -f /tmp/run_seed.$$.log
