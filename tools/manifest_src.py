"""Source of MANIFEST.json (tools/gen_manifest.py renders it)."""

E1 = "crosshair-z3"
E2 = "llvm-ir-z3"

ENGINES = [
    {"name": E1, "path": "vlib/e1.py, vlib/xh_worker.py, harness/*.py",
     "serves_properties": ["C02", "C03", "C04", "C05", "C10", "C11", "C12", "C13",
                           "C16", "C17", "C18", "C19", "C20"],
     "kind_free_text": "CrossHair 0.0.110: per-path symbolic execution of the real "
                       "pytype functions (imported from /repo at run time) with z3 "
                       "deciding path feasibility and the postcondition; sharded over "
                       "16 cores; counterexamples replayed untraced before reporting"},
    {"name": E2, "path": "vlib/e2_*.py",
     "serves_properties": ["C09"],
     "kind_free_text": "bounded symbolic interpreter for LLVM IR emitted by clang++-14 "
                       "from /repo/pytype/typegraph/*.cc on every run, z3 bit-vectors; "
                       "obligations discharged as unsat queries; sat models replayed on "
                       "the compiled extension"},
]

NOTES = (
    "Technique family: solver-based checking of the real code. Every result is "
    "bounded; bounds, stubs and what lies outside them are in each evidence file "
    "and in DESIGN.md. Exit codes: 0 = held on everything explored (INCONCLUSIVE "
    "lines list shards that did not finish and are not counted as success), 1 = "
    "reproduced violation, 3 = harness error (never a VIOLATION line).")


def _c(pid, engine, technique, level_text, level_note, design_ref):
  return {"id": pid, "engine": engine, "technique": technique,
          "level_text": level_text, "level_note": level_note,
          "design_ref": design_ref}


CHECKS = [
    _c("C20", E1,
       "symbolic execution (CrossHair+z3) of merge_pyi.merge_sources and its two stub pre-filter transformers over generated (program, stub) pairs; the property's clauses evaluated on the merged text with CPython's ast",
       "Bounded solver-certified exhaustive check for generated pairs: for every bounded program shape (module and class variables, plain / partially annotated / star-arg / decorated / nested / async functions, methods, static and class methods) and every stub for the same definitions (parameter, return and variable types incl. Any, Never, Optional, TypeVar; decorators present or absent), the merged source compiles, equals the original after stripping annotations and the typing imports / TypeVar definitions the merge added, keeps existing annotations, inserts only the stub's annotations and never a bare Any/Never as return or variable annotation. One defect repaired (bare Any/Never variable annotations were inserted).",
       "Trusted: CPython ast, libcst (third-party environment: parser and ApplyTypeAnnotationsVisitor run concretely, _merge_csts untraced), CrossHair, z3. Outside: stubs inferred by pytype for the program (VM), merge_files, other program shapes.",
       "DESIGN.md 4 C20"),
    _c("C02", E1,
       "symbolic execution (CrossHair+z3) of matcher.py and the three enforcement entry points (InterpreterFunction.match_args, CallTracer._check_return, Context.check_annotation_type_mismatch) on (annotation, value) pairs selected by symbolic selectors, against an independent membership oracle on the CPython run-time value",
       "Bounded solver-certified exhaustive check at the matcher level: for every annotation of a depth-bounded grammar (scalars incl. a generated class hierarchy, List/Set/Sequence/Iterable/Tuple forms/Dict/Mapping/Optional/Union/Type/Callable, selected depth-3 forms) and every ground value expression of a 49-expression grammar, each of the three enforcement sites reports an error iff the run-time value is outside the annotated type. Annotation and value objects are those the real VM builds in one native set-up run; the matching and site code run traced. Two recorded findings (None accepted as bool; mixed-element container literals accepted at the argument site) are printed as KNOWN-FINDING and excluded.",
       "Trusted: the membership oracle, CPython eval, CrossHair, z3. Cuts (real code run untraced): get_type_key, error formatting, the one set-up VM run; CrossHair's weakref model and matcher.py's `set` name replaced (DESIGN.md 4 C02). Outside: how the VM builds values for arbitrary programs, multi-binding values, generics/Protocol/TypedDict/Literal, str as Iterable[str], error line and text.",
       "DESIGN.md 4 C02"),
    _c("C09", E2,
       "bounded symbolic execution of the LLVM IR of reachable.cc / typegraph.cc over z3 bit-vectors; contracts as unsat queries plus bounded Program-level histories with symbolic endpoints",
       "Bounded solver-based check of the compiled C++: the row-OR update contract of add_connection, is_reachable and add_node (both vector layouts) hold for ARBITRARY 64-bit matrix contents at the listed node counts (one, two and three 64-bit buckets and both sides of each boundary); histories of k ConnectTo calls with symbolic endpoints on n nodes agree with graph reachability after every step. sat models are replayed on the compiled extension before being reported.",
       "Trusted: clang++-14 front end/-O1, the interpreter (validated against the compiled extension on concrete histories), z3. Stubs: operator new/delete, memset/memmove, InvalidateSolver. Outside: NewCFGNode, node counts not listed, the production optimisation level.",
       "DESIGN.md 4 C09"),
    _c("C05", E1,
       "symbolic execution (CrossHair+z3) of the stub printer, parser and verifier over generated stubs in the emitted dialect; parse/print fixed point plus a spec oracle for what was read",
       "Bounded solver-certified exhaustive check for generated stubs: every bounded function signature, class shape and type form parses, verifies, matches the spec it was generated from, and is a fixed point of print-then-parse; canonical_pyi is idempotent; the text printed from ASTs resolved by the real AdjustTypeParameters/AdjustSelf visitors (templates, self/cls types, classes nested in generic classes) is a fixed point too. Stubs emitted for analysed programs are NOT covered (need the VM).",
       "Trusted: CPython ast.parse on concrete text, CrossHair, z3. Outside: program-derived stubs, ParamSpec/Concatenate, names needing escaping.",
       "DESIGN.md 4 C05"),
    _c("C16", E1,
       "symbolic execution (CrossHair+z3) of opcodes.build_opcodes, blocks.add_pop_block_targets/compute_order and cfg_utils.order_nodes over symbolic disassemblies and digraphs",
       "Bounded solver-certified exhaustive check on a superset of compiler output: for every bounded instruction list with symbolic jump targets, inline-cache gaps and exception-table entries, the opcode list is link-consistent with resolved jumps and correctly placed synthetic block markers, blocks partition the instructions, jump targets start blocks and the order lists every instruction-level reachable block once after a predecessor; for every digraph on N nodes order_nodes / compute_predecessors meet their contracts; the same block-graph checks run on real CPython output for a generated program grammar. One recorded finding (handler reachable only through SETUP_EXCEPT_311) is printed as KNOWN-FINDING and excluded.",
       "Trusted: pycnite dataclasses, CrossHair, z3. Assumed compiler guarantees listed in evidence. Outside: async/generator surgery (SEND, GET_ANEXT), real compiler output, pycnite decoding.",
       "DESIGN.md 4 C16"),
    _c("C04", E1,
       "symbolic execution (CrossHair+z3) of ErrorLog.unique_sorted_errors over symbolic error lists and of CanonicalOrderingVisitor under symbolic permutations of every sortable tuple",
       "Bounded solver-certified exhaustive check of the two ordering mechanisms through which collection order could reach the output: the error report is sorted, unique and complete for every bounded list of errors, and the canonical form of a unit does not depend on the order of any sortable tuple. The hash seed, process history and encoder bytes are NOT covered (cannot be made symbolic).",
       "Trusted: CrossHair, z3. Outside: PYTHONHASHSEED, loader reuse, pickle bytes, typegraph set ordering, output.py's collection order.",
       "DESIGN.md 4 C04"),
    _c("C11", E1,
       "symbolic execution (CrossHair+z3) of optimize.Optimize over bounded pytd units and option sets against a denotational admits() oracle",
       "Bounded solver-certified exhaustive check: for every bounded type tree (as constant, parameter and return type) and every bounded overloaded function, under six option sets, the optimised unit admits a superset of values / calls (equal sets for plain class unions under lossless settings) and optimising twice equals optimising once.",
       "Trusted: the admits() oracle over a 68-value universe, CrossHair, z3. Outside: use_abcs, type parameters, stubs of analysed programs, bundled stubs.",
       "DESIGN.md 4 C11"),
    _c("C03", E1,
       "symbolic execution (CrossHair+z3) of _LineSet and of a real Director built from symbolic comment-parser output; with/without-directive differential over a symbolic raw error",
       "Bounded solver-based check at the Director level: line numbers are symbolic integers; for every bounded configuration of directives, statement/call/function ranges and a symbolic raw error, appending a trailing disable (or type: ignore) on the reported line silences that error and changes nothing else except through the documented start-line mechanism; a second group of jobs builds both Directors from generated source text through the real comment parser. One recorded finding (implicit-return line shift) is printed as KNOWN-FINDING and excluded.",
       "Trusted: CrossHair int/dict models, z3. Assumed: comment-parser output invariants and the compiler's implicit-return line (listed in evidence). Outside: directors/parser.py, the VM's choice of error line, `disable=*` as the appended directive.",
       "DESIGN.md 4 C03"),
    _c("C10", E1,
       "symbolic execution (CrossHair+z3) of pytd.mro and Class.compute_mro over all bounded class hierarchies, differential against CPython's type()",
       "Bounded solver-certified exhaustive check: every hierarchy of N classes with up to MAXB bases each is linearised by the stub path (GetBasesInMRO) and the interpreter path (compute_mro) and compared with CPython: TypeError <=> MROError, else identical order.",
       "Trusted: CPython's C3 (oracle), CrossHair, z3. Stand-in class objects for interpreter classes (expose bases()/mro/full_name). Outside: attribute lookup, the error line, generics, metaclasses.",
       "DESIGN.md 4 C10"),
    _c("C12", E1,
       "symbolic execution (CrossHair+z3) of pytd node __eq__/__hash__ over pairs and union permutations; per-path concrete serialise/decode round trip",
       "Bounded solver-certified exhaustive check of the eq/hash law over pairs of bounded type trees and over permutations/duplications of union members, plus encode/decode/re-encode of generated stubs (byte stability, canonical order, dependency lists).",
       "Trusted: msgspec C encoder/decoder, CrossHair, z3. Outside: ASTs of analysed programs, bundled stubs, `!=`.",
       "DESIGN.md 4 C12"),
    _c("C13", E1,
       "symbolic execution (CrossHair+z3) of SignedFunction._map_args and PyTDSignature._map_args over all bounded (signature, call) shapes, differential against real CPython calls",
       "Bounded solver-certified exhaustive check: for every signature with up to MAXP parameters of each kind and every call shape within the bounds, pytype fails the call iff CPython raises TypeError when a real function with that signature is called, and on success every parameter holds the argument CPython binds; the same call shapes are also passed in the f(*tuple, **dict) form through the real Args.simplify.",
       "Trusted: CPython call binding (oracle), CrossHair, z3. Real Context created once per worker; conversion/formatting helpers run untraced. Outside: */** at the call site, bound methods, overloads.",
       "DESIGN.md 4 C13"),
    _c("C19", E1,
       "symbolic execution (CrossHair+z3) of the build planner over symbolic import graphs with a transitive-closure oracle for all schedules; z3 string reasoning for ninja escaping",
       "Bounded solver-based check: for every import graph of N modules (any cycles, five module kinds) the emitted plan checks each requested file once, declares only produced dependencies, is acyclic, and every imports-map entry is default.pyi or an output in the transitive closure of declared deps (so no ninja schedule reads a stub before it is written); escaping of a symbolic path string round-trips through a model of ninja's lexer.",
       "Trusted: importlab/networkx SCC collapse (untraced), ninja lexer model, CrossHair's regex model for the escape job (cross-validated against CPython re), z3. Outside: running ninja, newline/CR/'|' in paths.",
       "DESIGN.md 4 C19"),
    _c("C17", E1,
       "symbolic execution (CrossHair+z3) of booleq constructors/simplify vs truth-table oracle, one solver query per term shape over all assignments",
       "Bounded solver-based check: for every term tree within the stated depth/arity/variable bounds, z3 shows the real term and the plain-connective oracle agree under every assignment (and every table admitting it). Exhaustive over shapes inside the bound, symbolic over assignments and tables.",
       "Trusted: CrossHair's int/bool models, z3. Assumed: simplify's documented precondition (assignment drawn from the table). Outside: Solver.solve, deeper terms.",
       "DESIGN.md 4 C17"),
    _c("C18", E1,
       "symbolic execution (CrossHair+z3) of the flow layer; one-step inductive check from arbitrary invariant-satisfying block states plus bounded histories vs an independent model",
       "Bounded solver-based check: condition constructors equal and/or/not under every valuation (symbolic valuation, one query per shape); one step of with_condition/store_local/merge_into from ARBITRARY pre-states satisfying the representation invariant preserves it and yields exactly the union / restriction of active values; bounded two-track histories agree with an independent model after every operation.",
       "Trusted: CrossHair bool model, z3. Assumed: representation invariant for one-step pre-states (re-established by every step and asserted on reachable histories). Outside: frame_base stepping, >2 names/values.",
       "DESIGN.md 4 C18"),
]

NOT_APPLICABLE = {
    "C01": "soundness of inference quantifies over programs run through the whole abstract VM on the C++ typegraph; programs must pass CPython's compile (C) so they cannot be symbolic and the VM cannot be traced by CrossHair (one path: 55 CPU-s then RecursionError); no sub-function carries the property alone",
    "C06": "hand-off spans VM -> output -> printer -> parser -> loader -> convert -> VM; both ends are the abstract VM (the printer/parser middle is decided under C05, the pickle middle under C12)",
    "C07": "solver.cc is a memoised backtracking search over std::set/unordered_map/deque and a unique_ptr trie; pointer-rich heap containers whose primitives live in libstdc++.so outside the emitted IR; no KLEE/CBMC-class engine is installed and the IR interpreter built for C09 handles flat arrays only",
    "C08": "same code as C07 plus the Python binding; cache invalidation cannot be decided without encoding the solver itself",
    "C14": "operator dispatch, attribute lookup and call checking run inside the VM against the parsed builtins stub; inputs are programs and the oracle is executing them. A dispatch-level harness (vm_utils.call_binary_operator / load_attr / call_function_with_state called directly on objects from a set-up run) was built and dropped: it does not reproduce the real pipeline's verdicts (e.g. [1][int] is flagged by the VM, not by the kernel call), so it would misrepresent the code",
    "C15": "quantifies over source texts through compile -> blocks -> VM -> output; only the block-graph stage has an encodable kernel, claimed under C16",
    # Planned in DESIGN.md; listed here until their check is committed:
}
